#!/usr/bin/env python3
"""Runs every kept seeded change against the checks that should see it and writes seeded/MATRIX.md
(plus detected_by in each meta.json). Never leaves /repo modified."""
import json, os, re, subprocess, sys, glob
VERIF = "/verif"
EXTRA = {
    "R2-C02-1": ["C13"], "R2-C05-1": ["C14"], "R2-C13-1": ["C05"], "R2-C04-1": ["C05", "C14"], "R2-C04-2": ["C18"], "R2-C07-2": ["C08"], "R2-C01-1": ["C02"], "R2-C02-2": ["C08"], "R2-C03-1": ["C15"],
    "R3-C01-1": ["C15"], "R3-C01-2": ["C06"], "R3-C02-2": ["C13"], "R3-C03-1": ["C01"], "R3-C03-2": ["C15"], "R3-C05-1": ["C04"], "R3-C05-2": ["C13"], "R3-C06-1": ["C01"], "R3-C09-1": ["C01"], "R3-C09-2": ["C01"],
    "R3-C13-2": ["C15"], "R3-C15-2": ["C03"], "R3-C18-1": ["C04"], "R3-C19-1": ["C05"], "R3-C07-2": ["C08"],  # additional checks that share the engine with the seed's own property
    "R4-C02-1": ["C01"], "R4-C01-1": ["C02"], "R4-C08-1": ["C07"], "R4-C14-1": ["C15"],
    "C01-2": ["C02"], "C03-2": ["C13", "C15"], "C05-1": ["C14"], "C05-2": ["C14"], "C14-2": ["C05"], "C02-1": ["C01"], "C12-1": ["C17"],
}
SELF = {  # own mutations: file -> checks
    "c03-any-dep.diff": ["C03"], "c03-extra-worker.diff": ["C03"], "c04-no-cancel-descendants.diff": ["C04"],
    "c10-no-inode-check.diff": ["C10"], "c10-close-before-remove.diff": ["C10"], "c10-cancel-removes.diff": ["C10"], "c10-shared-lock.diff": ["C10"],
    "revert-a53b285-file-restore.diff": ["C06", "C02"], "revert-d4ab3f5-dup-deps.diff": ["C20"],
}
def sh(cmd, **kw):
    return subprocess.run(cmd, shell=True, capture_output=True, text=True, **kw)
def clean():
    return sh("git -C /repo status --porcelain").stdout.strip() == ""
def run(patch, check):
    assert clean(), "repo not clean"
    if sh("git -C /repo apply --check %s" % patch).returncode != 0:
        return "patch-does-not-apply"
    sh("git -C /repo apply %s" % patch)
    ev = "/verif/evidence/%s.json" % check
    saved = open(ev).read() if os.path.exists(ev) else None  # evidence/ describes the unchanged tree
    try:
        p = sh("cd /verif && ./check %s" % check)
        out = p.stdout
    finally:
        sh("git -C /repo checkout -- . && git -C /repo clean -fdq")
        if saved is not None:
            open(ev, "w").write(saved)
        # drop replays created under the mutation
        for line in sh("git -C /verif status --porcelain replays").stdout.splitlines():
            if line.startswith("??"):
                sh("rm -rf /verif/%s" % line[3:].strip())
    sigs = re.findall(r"^--- \S+ part=(\S+) signature=(\S+)", out, re.M)
    if p.returncode == 1:
        names = sorted({"%s/%s" % s for s in sigs})
        if not names:  # a saved regression case failed in the replay tier, which stops the check at once
            names = sorted({"replay:" + r for r in re.findall(r"replay=\S+/([^/\s]+)\.json", out)})
        return "DETECTED " + ", ".join(names)[:200]
    if p.returncode == 0:
        return "missed"
    return "inconclusive(rc=%d)" % p.returncode
only = sys.argv[1:]
rows = []
for d in sorted(glob.glob(VERIF + "/seeded/C*-*") + glob.glob(VERIF + "/seeded/R2-C*-*") + glob.glob(VERIF + "/seeded/R3-C*-*") + glob.glob(VERIF + "/seeded/R4-C*-*")):
    name = os.path.basename(d)
    if only and name not in only:
        continue
    meta_p = os.path.join(d, "meta.json")
    meta = json.load(open(meta_p)) if os.path.exists(meta_p) else {}
    prop = name.replace("R2-", "").replace("R3-", "").replace("R4-", "").split("-")[0]
    det = {}
    for chk in [prop] + EXTRA.get(name, []):
        det[chk] = run(os.path.join(d, "patch.diff"), chk)
        print(name, chk, det[chk], flush=True)
    meta["detected_by"] = det
    json.dump(meta, open(meta_p, "w"), indent=1)
    rows.append((name, meta.get("summary", "")[:110].replace("\n", " "), det))
for f, checks in SELF.items():
    if only and f not in only:
        continue
    p = os.path.join(VERIF, "seeded/self", f)
    if os.path.exists(p):
        det = {c: run(p, c) for c in checks}
        print(f, det, flush=True)
        rows.append(("self/" + f, "own mutation", det))
with open(VERIF + "/seeded/MATRIX.md", "a" if only else "w") as out:
    if not only:
        out.write("# Seeded changes vs checks (quick tier, VERIF_SEED=1)\n\n| seed | change | result per check |\n|---|---|---|\n")
    for name, summ, det in rows:
        out.write("| %s | %s | %s |\n" % (name, summ, "; ".join("%s: %s" % kv for kv in det.items())))
