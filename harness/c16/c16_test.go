// C16 — BUILD loaders agree across formats, are deterministic, and never crash.
package c16

import (
	"context"
	"encoding/json"
	"fmt"
	"os"
	"path/filepath"
	"sort"
	"strconv"
	"strings"
	"testing"
	"time"

	"grog/internal/config"
	"grog/internal/loading"
	"grog/internal/model"
	"grog/verif/lib/pbt"

	"gopkg.in/yaml.v3"
	"pgregory.net/rapid"
)

// ------------------------------------------------------------ abstract package

type Check struct {
	Command  string `json:"command" yaml:"command"`
	Expected string `json:"expected_output,omitempty" yaml:"expected_output,omitempty"`
}

type Target struct {
	Name         string            `json:"name" yaml:"name"`
	Command      string            `json:"command,omitempty" yaml:"command,omitempty"`
	Dependencies []string          `json:"dependencies,omitempty" yaml:"dependencies,omitempty"`
	Inputs       []string          `json:"inputs,omitempty" yaml:"inputs,omitempty"`
	Excludes     []string          `json:"exclude_inputs,omitempty" yaml:"exclude_inputs,omitempty"`
	Outputs      []string          `json:"outputs,omitempty" yaml:"outputs,omitempty"`
	Bin          string            `json:"bin_output,omitempty" yaml:"bin_output,omitempty"`
	Checks       []Check           `json:"output_checks,omitempty" yaml:"output_checks,omitempty"`
	Tags         []string          `json:"tags,omitempty" yaml:"tags,omitempty"`
	Fingerprint  map[string]string `json:"fingerprint,omitempty" yaml:"fingerprint,omitempty"`
	Platforms    []string          `json:"platforms,omitempty" yaml:"platforms,omitempty"`
	Env          map[string]string `json:"environment_variables,omitempty" yaml:"environment_variables,omitempty"`
	Timeout      string            `json:"timeout,omitempty" yaml:"timeout,omitempty"`
}

type Alias struct {
	Name   string `json:"name" yaml:"name"`
	Actual string `json:"actual" yaml:"actual"`
}

type Package struct {
	Targets          []Target `json:"targets" yaml:"targets"`
	Aliases          []Alias  `json:"aliases,omitempty" yaml:"aliases,omitempty"`
	DefaultPlatforms []string `json:"default_platforms,omitempty" yaml:"default_platforms,omitempty"`
}

func renderJSON(p Package) string { b, _ := json.MarshalIndent(p, "", "  "); return string(b) }
func renderYAML(p Package) string { b, _ := yaml.Marshal(p); return string(b) }

func starStr(s string) string { return strconv.Quote(s) }
func starList(xs []string) string {
	parts := make([]string, len(xs))
	for i, x := range xs {
		parts[i] = starStr(x)
	}
	return "[" + strings.Join(parts, ", ") + "]"
}
func starDict(m map[string]string) string {
	keys := make([]string, 0, len(m))
	for k := range m {
		keys = append(keys, k)
	}
	sort.Strings(keys)
	parts := make([]string, len(keys))
	for i, k := range keys {
		parts[i] = starStr(k) + ": " + starStr(m[k])
	}
	return "{" + strings.Join(parts, ", ") + "}"
}

// renderStarlark spells default platforms out per target (the Starlark front end has no package-level default).
func renderStarlark(p Package) string {
	var b strings.Builder
	for _, t := range p.Targets {
		fmt.Fprintf(&b, "target(\n    name = %s,\n", starStr(t.Name))
		if t.Command != "" {
			fmt.Fprintf(&b, "    command = %s,\n", starStr(t.Command))
		}
		if t.Dependencies != nil {
			fmt.Fprintf(&b, "    dependencies = %s,\n", starList(t.Dependencies))
		}
		if t.Inputs != nil {
			fmt.Fprintf(&b, "    inputs = %s,\n", starList(t.Inputs))
		}
		if t.Excludes != nil {
			fmt.Fprintf(&b, "    exclude_inputs = %s,\n", starList(t.Excludes))
		}
		if t.Outputs != nil {
			fmt.Fprintf(&b, "    outputs = %s,\n", starList(t.Outputs))
		}
		if t.Bin != "" {
			fmt.Fprintf(&b, "    bin_output = %s,\n", starStr(t.Bin))
		}
		if t.Checks != nil {
			var cs []string
			for _, c := range t.Checks {
				if c.Expected != "" {
					cs = append(cs, fmt.Sprintf("{\"command\": %s, \"expected_output\": %s}", starStr(c.Command), starStr(c.Expected)))
				} else {
					cs = append(cs, fmt.Sprintf("{\"command\": %s}", starStr(c.Command)))
				}
			}
			fmt.Fprintf(&b, "    output_checks = [%s],\n", strings.Join(cs, ", "))
		}
		if t.Tags != nil {
			fmt.Fprintf(&b, "    tags = %s,\n", starList(t.Tags))
		}
		if t.Fingerprint != nil {
			fmt.Fprintf(&b, "    fingerprint = %s,\n", starDict(t.Fingerprint))
		}
		plats := t.Platforms
		if plats == nil {
			plats = p.DefaultPlatforms
		}
		if plats != nil {
			fmt.Fprintf(&b, "    platforms = %s,\n", starList(plats))
		}
		if t.Env != nil {
			fmt.Fprintf(&b, "    environment_variables = %s,\n", starDict(t.Env))
		}
		if t.Timeout != "" {
			fmt.Fprintf(&b, "    timeout = %s,\n", starStr(t.Timeout))
		}
		b.WriteString(")\n\n")
	}
	for _, a := range p.Aliases {
		fmt.Fprintf(&b, "alias(name = %s, actual = %s)\n", starStr(a.Name), starStr(a.Actual))
	}
	return b.String()
}

// makeGoal is the make goal a Makefile-expressible target is attached to.
func makeGoal(i int) string { return fmt.Sprintf("goal%d", i) }

// renderMakefile renders targets whose command is "make goal<i>" as annotations.
func renderMakefile(p Package) string {
	var b strings.Builder
	b.WriteString(".PHONY: all\nall:\n\ttrue\n\n")
	for i, t := range p.Targets {
		ann := map[string]any{"name": t.Name}
		if t.Dependencies != nil {
			ann["dependencies"] = t.Dependencies
		}
		if t.Inputs != nil {
			ann["inputs"] = t.Inputs
		}
		if t.Outputs != nil {
			ann["outputs"] = t.Outputs
		}
		if t.Tags != nil {
			ann["tags"] = t.Tags
		}
		if t.Fingerprint != nil {
			ann["fingerprint"] = t.Fingerprint
		}
		if t.Platforms != nil {
			ann["platforms"] = t.Platforms
		}
		if t.Env != nil {
			ann["environment_variables"] = t.Env
		}
		if t.Timeout != "" {
			ann["timeout"] = t.Timeout
		}
		y, _ := yaml.Marshal(ann)
		b.WriteString("# @grog\n")
		for _, line := range strings.Split(strings.TrimRight(string(y), "\n"), "\n") {
			b.WriteString("# " + line + "\n")
		}
		fmt.Fprintf(&b, "%s:\n\ttrue\n\n", makeGoal(i))
	}
	return b.String()
}

// ------------------------------------------------------------------ loading

var tmpRoot string

func summarise(pkgs []*model.Package) string {
	var lines []string
	for _, p := range pkgs {
		for _, t := range p.Targets {
			ins := append([]string{}, t.Inputs...)
			sort.Strings(ins)
			deps := []string{}
			for _, d := range t.Dependencies {
				deps = append(deps, d.String())
			}
			tags := append([]string{}, t.Tags...)
			plats := append([]string{}, t.Platforms...)
			fp, _ := json.Marshal(t.Fingerprint)
			if len(t.Fingerprint) == 0 {
				fp = []byte("{}")
			}
			env, _ := json.Marshal(t.EnvironmentVariables)
			if len(t.EnvironmentVariables) == 0 {
				env = []byte("{}")
			}
			checks, _ := json.Marshal(t.OutputChecks)
			if len(t.OutputChecks) == 0 {
				checks = []byte("[]")
			}
			bin := ""
			if t.HasBinOutput() {
				bin = t.BinOutput.String()
			}
			lines = append(lines, fmt.Sprintf("T %s cmd=%q inputs=%q outputs=%q bin=%q deps=%q tags=%q fp=%s platforms=%q timeout=%s env=%s checks=%s",
				t.Label, t.Command, ins, t.OutputDefinitions(), bin, deps, tags, fp, plats, t.Timeout, env, checks))
		}
		for _, a := range p.Aliases {
			lines = append(lines, fmt.Sprintf("A %s -> %s", a.Label, a.Actual))
		}
	}
	sort.Strings(lines)
	return strings.Join(lines, "\n")
}

type loadResult struct {
	summary string
	err     error
}

// loadWorkspace writes files below a fresh root and loads it, with a watchdog.
func loadWorkspace(slot string, files map[string]string, order []string, workers int) (loadResult, bool) {
	root := filepath.Join(tmpRoot, slot)
	_ = os.RemoveAll(root)
	if order == nil {
		for p := range files {
			order = append(order, p)
		}
		sort.Strings(order)
	}
	for _, p := range order {
		full := filepath.Join(root, p)
		_ = os.MkdirAll(filepath.Dir(full), 0o755)
		if err := os.WriteFile(full, []byte(files[p]), 0o644); err != nil {
			return loadResult{err: fmt.Errorf("harness: %w", err)}, true
		}
	}
	_ = os.WriteFile(filepath.Join(root, "grog.toml"), nil, 0o644)
	config.Global = config.WorkspaceConfig{WorkspaceRoot: root, NumWorkers: workers, OS: "linux", Arch: "amd64"}
	done := make(chan loadResult, 1)
	go func() {
		pkgs, err := loading.LoadPackages(context.Background(), root)
		if err != nil {
			done <- loadResult{err: err}
			return
		}
		done <- loadResult{summary: summarise(pkgs)}
	}()
	select {
	case r := <-done:
		return r, true
	case <-time.After(20 * time.Second):
		return loadResult{}, false
	}
}

// ------------------------------------------------------------ part: formats

type FormatCase struct {
	Pkg      string            `json:"pkg"`
	Package  Package           `json:"package"`
	Sources  map[string]string `json:"sources"`  // package-relative path -> content
	Makefile bool              `json:"makefile"` // package restricted to what Makefile annotations can say
	// StarMacros renders BUILD.star through a macro library in another directory
	// (absolute load from the BUILD file, relative load inside the library, and a
	// same-named decoy module next to the BUILD file).
	StarMacros bool `json:"starlark_macros"`
}

var hostile = []string{"yes", "no", "~", "1.0", "null", "a: b", "# c", " lead", "trail ", "0x10", "true", "-", "[x]", "{y}", "a,b", "it's", "say \"hi\"", "back\\slash", "*.txt", "@at", "`tick`", "|", ">", "%p", "!tag", "&anchor", "*alias", "123", "1e3", "2024-01-01", "on", "off"}

func genStr(t *rapid.T, label string, plain []string) string {
	if rapid.IntRange(0, 3).Draw(t, label+"-hostile") == 0 {
		return rapid.SampledFrom(hostile).Draw(t, label)
	}
	return rapid.SampledFrom(plain).Draw(t, label)
}

func genFormatCase(t *rapid.T) FormatCase {
	c := FormatCase{Pkg: rapid.SampledFrom([]string{"", "p", "p/q"}).Draw(t, "pkg"), Sources: map[string]string{}}
	c.Makefile = rapid.IntRange(0, 2).Draw(t, "makefile") == 0
	c.StarMacros = rapid.IntRange(0, 2).Draw(t, "starmacros") == 0
	for _, f := range rapid.SliceOfNDistinct(rapid.SampledFrom([]string{"a.txt", "b.txt", "c.md", "src/a.txt", "src/b.txt", "src/deep/c.txt", "data.json"}), 0, 6, rapid.ID[string]).Draw(t, "files") {
		c.Sources[f] = "x"
	}
	n := rapid.IntRange(1, 4).Draw(t, "ntargets")
	names := rapid.SliceOfNDistinct(rapid.SampledFrom([]string{"t0", "t1", "lib", "app", "x_test", "a.b", "T-2", "all_"}), n, n, rapid.ID[string]).Draw(t, "names")
	strs := func(label string, pool []string, max int) []string {
		k := rapid.IntRange(0, max).Draw(t, label+"-n")
		if k == 0 {
			if rapid.Bool().Draw(t, label+"-nil") {
				return nil
			}
			return nil // empty and absent lists are the same package
		}
		var out []string
		for i := 0; i < k; i++ {
			out = append(out, genStr(t, label, pool))
		}
		return out
	}
	smap := func(label string) map[string]string {
		k := rapid.IntRange(0, 2).Draw(t, label+"-n")
		if k == 0 {
			return nil
		}
		m := map[string]string{}
		for i := 0; i < k; i++ {
			m[genStr(t, label+"-k", []string{"k", "version", "a", "K_2"})] = genStr(t, label+"-v", []string{"", "1", "v", "a b"})
		}
		return m
	}
	for i, name := range names {
		tg := Target{Name: name}
		if c.Makefile {
			tg.Command = "make " + makeGoal(i)
		} else {
			tg.Command = genStr(t, "cmd", []string{"true", "echo hi > o", "cat a.txt\necho two lines", "exit 1"})
		}
		tg.Dependencies = nil
		for j := 0; j < i; j++ {
			if rapid.IntRange(0, 2).Draw(t, "dep") == 0 {
				switch rapid.IntRange(0, 2).Draw(t, "depform") {
				case 0:
					tg.Dependencies = append(tg.Dependencies, ":"+names[j])
				case 1:
					tg.Dependencies = append(tg.Dependencies, "//"+c.Pkg+":"+names[j])
				default:
					tg.Dependencies = append(tg.Dependencies, "//other/pkg:"+names[j])
				}
			}
		}
		tg.Inputs = strs("inputs", []string{"a.txt", "*.txt", "src/*.txt", "src/**/*.txt", "**/*.txt", "c.md", "missing.txt", "data.json"}, 3)
		if !c.Makefile {
			if tg.Inputs != nil {
				tg.Excludes = strs("excludes", []string{"b.txt", "src/b.txt", "**/c.txt", "*.md"}, 2)
			}
			if rapid.IntRange(0, 3).Draw(t, "bin") == 0 {
				tg.Bin = rapid.SampledFrom([]string{"bin/tool", "tool.sh"}).Draw(t, "binpath")
			}
			if rapid.IntRange(0, 3).Draw(t, "checks") == 0 {
				tg.Checks = []Check{{Command: genStr(t, "checkcmd", []string{"test -f o", "cat o"}), Expected: rapid.SampledFrom([]string{"", "ok", "1.0"}).Draw(t, "expected")}}
			}
		}
		// outputs: plain strings would be parsed as typed outputs when they contain "::", keep to legal definitions
		for k := rapid.IntRange(0, 2).Draw(t, "nout"); k > 0; k-- {
			tg.Outputs = append(tg.Outputs, rapid.SampledFrom([]string{"o", "out/o2", "dir::d", "dir::dist/d2", "docker::img:v1", "yes", "1.0", "~"}).Draw(t, "out"))
		}
		tg.Tags = strs("tags", []string{"x", "no-cache", "testonly", "ci"}, 2)
		tg.Fingerprint = smap("fp")
		tg.Env = smap("env")
		if rapid.IntRange(0, 2).Draw(t, "platforms") == 0 {
			tg.Platforms = rapid.SampledFrom([][]string{{"linux/amd64"}, {"darwin/arm64", "linux/amd64"}}).Draw(t, "plats")
		}
		if rapid.IntRange(0, 2).Draw(t, "timeout") == 0 {
			tg.Timeout = rapid.SampledFrom([]string{"5s", "1m30s", "250ms", "2h"}).Draw(t, "timeoutv")
		}
		c.Package.Targets = append(c.Package.Targets, tg)
	}
	if !c.Makefile {
		for k := rapid.IntRange(0, 2).Draw(t, "naliases"); k > 0; k-- {
			c.Package.Aliases = append(c.Package.Aliases, Alias{Name: fmt.Sprintf("al%d", k), Actual: rapid.SampledFrom([]string{":" + names[0], "//" + c.Pkg + ":" + names[0], "//x/y:z"}).Draw(t, "actual")})
		}
		if rapid.IntRange(0, 3).Draw(t, "defplat") == 0 {
			c.Package.DefaultPlatforms = []string{"linux/arm64"}
		}
	}
	return c
}

func runFormats(c FormatCase) (pbt.Result, error) {
	res := pbt.Result{}
	renderings := map[string]string{"BUILD.json": renderJSON(c.Package), "BUILD.yaml": renderYAML(c.Package), "BUILD.star": renderStarlark(c.Package)}
	if c.Makefile {
		renderings["Makefile"] = renderMakefile(c.Package)
	}
	// the YAML rendering must mean the same package to the YAML library itself, else the case is outside the domain
	var back Package
	if err := yaml.Unmarshal([]byte(renderings["BUILD.yaml"]), &back); err != nil || renderJSON(back) != renderJSON(c.Package) {
		return pbt.Result{Discard: true}, nil
	}
	extra := map[string]map[string]string{}
	if c.StarMacros {
		star := "load(\"//tools/macros/defs.star\", \"mk\")\n\n" + strings.ReplaceAll(renderStarlark(c.Package), "target(\n", "mk(\n")
		renderings["BUILD.star"] = star
		extra["BUILD.star"] = map[string]string{
			"tools/macros/defs.star":    "load(\"helpers.star\", \"wrap\")\n\ndef mk(**kwargs):\n    target(**wrap(kwargs))\n",
			"tools/macros/helpers.star": "def wrap(d):\n    return d\n",
			// decoy with the same name next to the BUILD file: must not be picked up by the library's relative load
			filepath.Join(c.Pkg, "helpers.star"): "def wrap(d):\n    d = dict(d)\n    d[\"command\"] = \"decoy\"\n    return d\n",
		}
		if c.Pkg == "tools/macros" {
			delete(extra["BUILD.star"], filepath.Join(c.Pkg, "helpers.star"))
		}
	}
	names := make([]string, 0, len(renderings))
	for n := range renderings {
		names = append(names, n)
	}
	sort.Strings(names)
	results := map[string]loadResult{}
	for _, n := range names {
		files := map[string]string{filepath.Join(c.Pkg, n): renderings[n]}
		for p, content := range c.Sources {
			files[filepath.Join(c.Pkg, p)] = content
		}
		for p, content := range extra[n] {
			files[p] = content
		}
		r, ok := loadWorkspace("fmt", files, nil, 4)
		if !ok {
			return res, pbt.Fail("loader-hang:"+n, "loading %s did not return within 20 s", n)
		}
		if r.err != nil && strings.HasPrefix(r.err.Error(), "harness:") {
			return res, r.err
		}
		results[n] = r
	}
	ref := results["BUILD.json"]
	for _, n := range names {
		r := results[n]
		if (r.err == nil) != (ref.err == nil) {
			return res, pbt.Fail("format-accept-differs:"+n, "BUILD.json: err=%v\n%s: err=%v\n--- %s\n%s", ref.err, n, r.err, n, renderings[n])
		}
		if r.err == nil && r.summary != ref.summary {
			return res, pbt.Fail("format-differs:"+n+":"+firstDiffField(ref.summary, r.summary), "same package loads differently.\nBUILD.json:\n%s\n%s:\n%s\n--- rendering\n%s", ref.summary, n, r.summary, renderings[n])
		}
	}
	res.Classes = append(res.Classes, fmt.Sprintf("formats=%d", len(names)))
	if c.StarMacros {
		res.Classes = append(res.Classes, "starlark-macros")
	}
	if ref.err != nil {
		res.Classes = append(res.Classes, "rejected-by-all")
	}
	hasGlobEx := false
	hasFp := false
	for _, t := range c.Package.Targets {
		if len(t.Excludes) > 0 {
			hasGlobEx = true
		}
		if len(t.Fingerprint) > 0 {
			hasFp = true
		}
	}
	res.NonTrivial = ref.err == nil && len(c.Package.Targets) >= 2 && (hasGlobEx || hasFp || len(c.Package.Aliases) > 0 || c.Makefile)
	return res, nil
}

func firstDiffField(a, b string) string {
	la, lb := strings.Split(a, "\n"), strings.Split(b, "\n")
	for i := range la {
		if i >= len(lb) {
			return "missing-node"
		}
		if la[i] != lb[i] {
			fa, fb := strings.Split(la[i], " "), strings.Split(lb[i], " ")
			for j := range fa {
				if j >= len(fb) || fa[j] != fb[j] {
					if k := strings.Index(fa[j], "="); k > 0 {
						return fa[j][:k]
					}
					return "label"
				}
			}
		}
	}
	return "extra-node"
}

func TestFormats(t *testing.T) {
	pbt.Main(t, pbt.Spec[FormatCase]{ID: "C16", Gen: genFormatCase, Run: runFormats, WAL: true})
}

// ------------------------------------------------------- part: determinism

type DetCase struct {
	Files  map[string]string `json:"files"` // workspace-relative path -> content
	Orders [][]string        `json:"creation_orders"`
	Worker []int             `json:"workers"`
	Nodes  int               `json:"declared_nodes"`
}

func genDetCase(t *rapid.T) DetCase {
	c := DetCase{Files: map[string]string{}}
	pkgs := rapid.SliceOfNDistinct(rapid.SampledFrom([]string{"", "a", "a/b", "ab", "c", "c/d", "e"}), 1, 6, rapid.ID[string]).Draw(t, "pkgs")
	for _, pkg := range pkgs {
		var tg []Target
		var al []Alias
		for i := rapid.IntRange(0, 3).Draw(t, "nt"); i > 0; i-- {
			tg = append(tg, Target{Name: fmt.Sprintf("t%d", i), Command: "true", Inputs: []string{"*.txt"}, Tags: []string{"x"}})
		}
		for i := rapid.IntRange(0, 2).Draw(t, "na"); i > 0; i-- {
			al = append(al, Alias{Name: fmt.Sprintf("al%d", i), Actual: ":t1"})
		}
		c.Nodes += len(tg) + len(al)
		c.Files[filepath.Join(pkg, "in.txt")] = "x"
		// split the package over up to three BUILD files of different formats
		switch rapid.IntRange(0, 4).Draw(t, "split") {
		case 0:
			c.Files[filepath.Join(pkg, "BUILD.json")] = renderJSON(Package{Targets: tg, Aliases: al})
		case 1:
			c.Files[filepath.Join(pkg, "BUILD.json")] = renderJSON(Package{Targets: tg})
			c.Files[filepath.Join(pkg, "BUILD.yaml")] = renderYAML(Package{Targets: []Target{}, Aliases: al})
		case 2:
			c.Files[filepath.Join(pkg, "BUILD.yaml")] = renderYAML(Package{Targets: tg})
			c.Files[filepath.Join(pkg, "BUILD.json")] = renderJSON(Package{Targets: []Target{}, Aliases: al})
		case 3:
			c.Files[filepath.Join(pkg, "BUILD.star")] = renderStarlark(Package{Targets: tg})
			c.Files[filepath.Join(pkg, "BUILD.json")] = renderJSON(Package{Targets: []Target{}, Aliases: al})
		default:
			half := len(tg) / 2
			c.Files[filepath.Join(pkg, "BUILD.json")] = renderJSON(Package{Targets: tg[:half], Aliases: al})
			c.Files[filepath.Join(pkg, "BUILD.star")] = renderStarlark(Package{Targets: tg[half:]})
		}
	}
	var paths []string
	for p := range c.Files {
		paths = append(paths, p)
	}
	sort.Strings(paths)
	for r := 0; r < 4; r++ {
		order := append([]string{}, paths...)
		for i := len(order) - 1; i > 0; i-- {
			j := rapid.IntRange(0, i).Draw(t, "shuffle")
			order[i], order[j] = order[j], order[i]
		}
		c.Orders = append(c.Orders, order)
		c.Worker = append(c.Worker, rapid.IntRange(1, 16).Draw(t, "workers"))
	}
	return c
}

func runDet(c DetCase) (pbt.Result, error) {
	res := pbt.Result{}
	var first loadResult
	multi := 0
	dirs := map[string]int{}
	for p := range c.Files {
		if strings.HasPrefix(filepath.Base(p), "BUILD.") {
			dirs[filepath.Dir(p)]++
		}
	}
	for _, n := range dirs {
		if n > 1 {
			multi++
		}
	}
	for i := range c.Orders {
		for rep := 0; rep < 3; rep++ {
			r, ok := loadWorkspace("det", c.Files, c.Orders[i], c.Worker[i])
			if !ok {
				return res, pbt.Fail("loader-hang:determinism", "LoadPackages did not return within 20 s")
			}
			if i == 0 && rep == 0 {
				first = r
				continue
			}
			if (r.err == nil) != (first.err == nil) {
				return res, pbt.Fail("nondeterministic-accept", "same workspace: first load err=%v, load with creation order #%d / %d workers err=%v", first.err, i, c.Worker[i], r.err)
			}
			if r.err == nil && r.summary != first.summary {
				return res, pbt.Fail("nondeterministic-graph", "same workspace loads differently (creation order #%d, %d workers):\nfirst:\n%s\nthen:\n%s", i, c.Worker[i], first.summary, r.summary)
			}
		}
	}
	// the merged result must also contain every declared node
	if first.err == nil {
		want := c.Nodes
		got := 0
		if first.summary != "" {
			got = len(strings.Split(first.summary, "\n"))
		}
		if got != want {
			return res, pbt.Fail("merged-package-loses-nodes", "workspace declares %d targets+aliases, loaded graph has %d:\n%s", want, got, first.summary)
		}
	}
	res.NonTrivial = multi > 0 && len(dirs) > 1
	if multi > 0 {
		res.Classes = append(res.Classes, "multi-file-package")
	}
	return res, nil
}

func TestDeterminism(t *testing.T) {
	pbt.Main(t, pbt.Spec[DetCase]{ID: "C16", Gen: genDetCase, Run: runDet, WAL: true})
}

// -------------------------------------------------------- part: robustness

type RobustCase struct {
	File    string `json:"file"` // BUILD.json | BUILD.yaml | BUILD.star | Makefile | x.grog.sh
	Content string `json:"content"`
}

var spliceConstants = []string{"# @grog\n", "# @grog\ngoal:\n", "# @grog\n#\ngoal:\n", "null", "[null]", "{}", "[]", "\x00", "~", "- ", ": ", "targets:", "\"targets\": [null]", "\"aliases\": [null]", "aliases:\n- null\n",
	"targets:\n- null\n", "target(", ")", "load(\"x.star\", \"y\")", "load(\"//BUILD.star\", \"y\")", "[[[[[[[[[[[[[[[[", "{{{{{{{{{{{{{{{", strings.Repeat("a", 70000), "\n\n\n", "\t", "&a [*a]", "!!binary |", "<<: *x",
	"timeout: nonsense", "\"timeout\": \"1 hour\"", "outputs: [\"weird::x\"]", "\"outputs\": [\"::\"]", "\"bin_output\": \"dir::x\"", "name: 5", "\"name\": {}", "dependencies: [\"not a label\"]", "\"dependencies\": [\":\"]",
	"inputs: [\"[\"]", "\"inputs\": [\"{a,\"]", "exclude_inputs: [\"[\"]", "# @grog\n# name: [\ngoal:\n", "# @grog\n# - a\n# b: c\ngoal:\n", "goal\n", "default_platforms: 5", "environments:\n- null\n", "\"environments\": [{}]"}

func genRobust(t *rapid.T) RobustCase {
	fc := genFormatCase(t)
	file := rapid.SampledFrom([]string{"BUILD.json", "BUILD.yaml", "BUILD.star", "Makefile", "x.grog.sh"}).Draw(t, "file")
	var content string
	switch file {
	case "BUILD.json":
		content = renderJSON(fc.Package)
	case "BUILD.yaml":
		content = renderYAML(fc.Package)
	case "BUILD.star":
		content = renderStarlark(fc.Package)
	case "Makefile":
		content = renderMakefile(fc.Package)
	default:
		content = "#!/bin/sh\n" + strings.Replace(renderMakefile(Package{Targets: fc.Package.Targets[:1]}), "goal0:", "echo run", 1)
	}
	b := []byte(content)
	for k := rapid.IntRange(1, 4).Draw(t, "nmut"); k > 0; k-- {
		pos := 0
		if len(b) > 0 {
			pos = rapid.IntRange(0, len(b)).Draw(t, "pos")
		}
		switch rapid.IntRange(0, 5).Draw(t, "mut") {
		case 0: // bit flip
			if len(b) > 0 {
				p := pos % len(b)
				b[p] ^= 1 << uint(rapid.IntRange(0, 7).Draw(t, "bit"))
			}
		case 1: // truncate
			b = b[:pos]
		case 2, 3: // splice a hostile constant
			s := rapid.SampledFrom(spliceConstants).Draw(t, "const")
			b = append(b[:pos:pos], append([]byte(s), b[pos:]...)...)
		case 4: // delete a span
			end := pos
			if len(b) > pos {
				end = pos + rapid.IntRange(0, min(40, len(b)-pos)).Draw(t, "span")
			}
			b = append(b[:pos:pos], b[end:]...)
		default: // duplicate a line
			lines := strings.SplitAfter(string(b), "\n")
			if len(lines) > 0 {
				i := pos % len(lines)
				lines = append(lines[:i+1], lines[i:]...)
				b = []byte(strings.Join(lines, ""))
			}
		}
	}
	return RobustCase{File: file, Content: string(b)}
}

func runRobust(c RobustCase) (pbt.Result, error) {
	res := pbt.Result{Classes: []string{c.File}}
	files := map[string]string{filepath.Join("p", c.File): c.Content, "p/a.txt": "x", "p/src/a.txt": "y"}
	r, ok := loadWorkspace("robust", files, nil, 2)
	if !ok {
		if c.File == "BUILD.star" {
			return pbt.Result{Discard: true}, nil // a long-running program is not a loader defect
		}
		return res, pbt.Fail("loader-hang:"+c.File, "loading did not return within 20 s")
	}
	if r.err != nil && strings.HasPrefix(r.err.Error(), "harness:") {
		return pbt.Result{Discard: true}, nil // e.g. NUL in a file name cannot happen here; content only
	}
	if r.err != nil {
		res.Classes = append(res.Classes, c.File+":rejected")
		res.NonTrivial = true // reached the parser and was rejected cleanly
	} else {
		res.Classes = append(res.Classes, c.File+":accepted")
		res.NonTrivial = r.summary != ""
	}
	return res, nil
}

func TestRobust(t *testing.T) {
	pbt.Main(t, pbt.Spec[RobustCase]{ID: "C16", Gen: genRobust, Run: runRobust, WAL: true})
}

func TestMain(m *testing.M) {
	dir, err := os.MkdirTemp("", "c16-")
	if err != nil {
		panic(err)
	}
	tmpRoot = dir
	code := m.Run()
	_ = os.RemoveAll(dir)
	os.Exit(code)
}

// FuzzLoaders: native coverage-guided fuzzing of every loader (thorough tier). The oracle is the one of the
// robustness part (value or error, never a panic / fatal error / hang). When VERIF_EXPORT is set the input is
// written there as a RobustCase first, so that the driver can turn a crasher into an ordinary replay file.
func FuzzLoaders(f *testing.F) {
	kinds := []string{"BUILD.json", "BUILD.yaml", "BUILD.star", "Makefile", "x.grog.sh"}
	pkg := Package{Targets: []Target{{Name: "t0", Command: "true", Inputs: []string{"*.txt"}, Outputs: []string{"o", "dir::d"}, Tags: []string{"x"}, Fingerprint: map[string]string{"k": "v"}, Timeout: "5s",
		Checks: []Check{{Command: "true", Expected: "ok"}}}, {Name: "t1", Command: "make goal1", Dependencies: []string{":t0"}}}, Aliases: []Alias{{Name: "al", Actual: ":t0"}}}
	seeds := []string{renderJSON(pkg), renderYAML(pkg), renderStarlark(pkg), renderMakefile(pkg), "#!/bin/sh\n# @grog\n# name: s\n# inputs:\n#   - a.txt\necho hi\n"}
	for i, s := range seeds {
		f.Add(i, []byte(s))
	}
	for i := range kinds {
		for _, c := range spliceConstants {
			if len(c) < 200 {
				f.Add(i, []byte(c))
			}
		}
	}
	f.Fuzz(func(t *testing.T, kind int, content []byte) {
		if kind < 0 {
			kind = -kind
		}
		c := RobustCase{File: kinds[kind%len(kinds)], Content: string(content)}
		if p := os.Getenv("VERIF_EXPORT"); p != "" {
			b, _ := json.Marshal(map[string]any{"part": "robust", "property": "C16", "signature": "fuzz-crasher", "case": c})
			_ = os.WriteFile(p, b, 0o644)
		}
		if _, err := runRobust(c); err != nil {
			t.Fatalf("%v", err)
		}
	})
}
