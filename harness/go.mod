module grog/verif

go 1.26.0

require (
	github.com/charmbracelet/bubbletea v1.3.10
	github.com/zeebo/xxh3 v1.0.2
	google.golang.org/protobuf v1.36.10
	gopkg.in/yaml.v3 v3.0.1
	grog v0.0.0
	pgregory.net/rapid v1.3.0
)

require (
	cel.dev/expr v0.25.1 // indirect
	cloud.google.com/go v0.123.0 // indirect
	cloud.google.com/go/auth v0.17.0 // indirect
	cloud.google.com/go/auth/oauth2adapt v0.2.8 // indirect
	cloud.google.com/go/compute/metadata v0.9.0 // indirect
	cloud.google.com/go/iam v1.5.3 // indirect
	cloud.google.com/go/monitoring v1.24.3 // indirect
	cloud.google.com/go/storage v1.57.2 // indirect
	github.com/GoogleCloudPlatform/opentelemetry-operations-go/detectors/gcp v1.30.0 // indirect
	github.com/GoogleCloudPlatform/opentelemetry-operations-go/exporter/metric v0.54.0 // indirect
	github.com/GoogleCloudPlatform/opentelemetry-operations-go/internal/resourcemapping v0.54.0 // indirect
	github.com/alitto/pond/v2 v2.6.0 // indirect
	github.com/apple/pkl-go v0.12.1 // indirect
	github.com/aws/aws-sdk-go-v2 v1.40.1 // indirect
	github.com/aws/aws-sdk-go-v2/aws/protocol/eventstream v1.7.4 // indirect
	github.com/aws/aws-sdk-go-v2/config v1.32.3 // indirect
	github.com/aws/aws-sdk-go-v2/credentials v1.19.3 // indirect
	github.com/aws/aws-sdk-go-v2/feature/ec2/imds v1.18.15 // indirect
	github.com/aws/aws-sdk-go-v2/internal/configsources v1.4.15 // indirect
	github.com/aws/aws-sdk-go-v2/internal/endpoints/v2 v2.7.15 // indirect
	github.com/aws/aws-sdk-go-v2/internal/ini v1.8.4 // indirect
	github.com/aws/aws-sdk-go-v2/internal/v4a v1.4.15 // indirect
	github.com/aws/aws-sdk-go-v2/service/internal/accept-encoding v1.13.4 // indirect
	github.com/aws/aws-sdk-go-v2/service/internal/checksum v1.9.6 // indirect
	github.com/aws/aws-sdk-go-v2/service/internal/presigned-url v1.13.15 // indirect
	github.com/aws/aws-sdk-go-v2/service/internal/s3shared v1.19.15 // indirect
	github.com/aws/aws-sdk-go-v2/service/s3 v1.93.0 // indirect
	github.com/aws/aws-sdk-go-v2/service/signin v1.0.3 // indirect
	github.com/aws/aws-sdk-go-v2/service/sso v1.30.6 // indirect
	github.com/aws/aws-sdk-go-v2/service/ssooidc v1.35.11 // indirect
	github.com/aws/aws-sdk-go-v2/service/sts v1.41.3 // indirect
	github.com/aws/smithy-go v1.24.0 // indirect
	github.com/aymanbagabas/go-osc52/v2 v2.0.1 // indirect
	github.com/blang/semver/v4 v4.0.0 // indirect
	github.com/bmatcuk/doublestar/v4 v4.9.1 // indirect
	github.com/boyter/gocodewalker v1.5.1 // indirect
	github.com/cespare/xxhash/v2 v2.3.0 // indirect
	github.com/charmbracelet/colorprofile v0.3.3 // indirect
	github.com/charmbracelet/lipgloss v1.1.0 // indirect
	github.com/charmbracelet/x/ansi v0.11.2 // indirect
	github.com/charmbracelet/x/cellbuf v0.0.14 // indirect
	github.com/charmbracelet/x/term v0.2.2 // indirect
	github.com/clipperhouse/displaywidth v0.6.1 // indirect
	github.com/clipperhouse/stringish v0.1.1 // indirect
	github.com/clipperhouse/uax29/v2 v2.3.0 // indirect
	github.com/cncf/xds/go v0.0.0-20251110193048-8bfbf64dc13e // indirect
	github.com/containerd/errdefs v1.0.0 // indirect
	github.com/containerd/errdefs/pkg v0.3.0 // indirect
	github.com/containerd/stargz-snapshotter/estargz v0.18.1 // indirect
	github.com/danwakefield/fnmatch v0.0.0-20160403171240-cbb64ac3d964 // indirect
	github.com/distribution/reference v0.6.0 // indirect
	github.com/docker/cli v29.1.2+incompatible // indirect
	github.com/docker/docker v28.5.2+incompatible // indirect
	github.com/docker/docker-credential-helpers v0.9.4 // indirect
	github.com/docker/go-connections v0.6.0 // indirect
	github.com/docker/go-units v0.5.0 // indirect
	github.com/envoyproxy/go-control-plane/envoy v1.36.0 // indirect
	github.com/envoyproxy/protoc-gen-validate v1.2.1 // indirect
	github.com/fatih/color v1.18.0 // indirect
	github.com/felixge/httpsnoop v1.0.4 // indirect
	github.com/fsnotify/fsnotify v1.9.0 // indirect
	github.com/go-jose/go-jose/v4 v4.1.3 // indirect
	github.com/go-logr/logr v1.4.3 // indirect
	github.com/go-logr/stdr v1.2.2 // indirect
	github.com/go-viper/mapstructure/v2 v2.4.0 // indirect
	github.com/google/go-containerregistry v0.20.7 // indirect
	github.com/google/s2a-go v0.1.9 // indirect
	github.com/google/uuid v1.6.0 // indirect
	github.com/googleapis/enterprise-certificate-proxy v0.3.7 // indirect
	github.com/googleapis/gax-go/v2 v2.15.0 // indirect
	github.com/klauspost/compress v1.18.2 // indirect
	github.com/klauspost/cpuid/v2 v2.3.0 // indirect
	github.com/lucasb-eyer/go-colorful v1.3.0 // indirect
	github.com/mattn/go-colorable v0.1.14 // indirect
	github.com/mattn/go-isatty v0.0.20 // indirect
	github.com/mattn/go-runewidth v0.0.19 // indirect
	github.com/moby/docker-image-spec v1.3.1 // indirect
	github.com/moby/term v0.5.2 // indirect
	github.com/morikuni/aec v1.0.0 // indirect
	github.com/muesli/ansi v0.0.0-20230316100256-276c6243b2f6 // indirect
	github.com/muesli/cancelreader v0.2.2 // indirect
	github.com/muesli/termenv v0.16.0 // indirect
	github.com/opencontainers/go-digest v1.0.0 // indirect
	github.com/opencontainers/image-spec v1.1.1 // indirect
	github.com/pelletier/go-toml/v2 v2.2.4 // indirect
	github.com/pkg/errors v0.9.1 // indirect
	github.com/rivo/uniseg v0.4.7 // indirect
	github.com/sagikazarmark/locafero v0.12.0 // indirect
	github.com/shirou/gopsutil v3.21.11+incompatible // indirect
	github.com/sirupsen/logrus v1.9.3 // indirect
	github.com/spf13/afero v1.15.0 // indirect
	github.com/spf13/cast v1.10.0 // indirect
	github.com/spf13/pflag v1.0.10 // indirect
	github.com/spf13/viper v1.21.0 // indirect
	github.com/spiffe/go-spiffe/v2 v2.6.0 // indirect
	github.com/subosito/gotenv v1.6.0 // indirect
	github.com/vbatts/tar-split v0.12.2 // indirect
	github.com/vmihailenco/msgpack/v5 v5.4.1 // indirect
	github.com/vmihailenco/tagparser/v2 v2.0.0 // indirect
	github.com/xo/terminfo v0.0.0-20220910002029-abceb7e1c41e // indirect
	go.opentelemetry.io/auto/sdk v1.2.1 // indirect
	go.opentelemetry.io/contrib/detectors/gcp v1.38.0 // indirect
	go.opentelemetry.io/contrib/instrumentation/google.golang.org/grpc/otelgrpc v0.63.0 // indirect
	go.opentelemetry.io/contrib/instrumentation/net/http/otelhttp v0.63.0 // indirect
	go.opentelemetry.io/otel v1.38.0 // indirect
	go.opentelemetry.io/otel/metric v1.38.0 // indirect
	go.opentelemetry.io/otel/sdk v1.38.0 // indirect
	go.opentelemetry.io/otel/sdk/metric v1.38.0 // indirect
	go.opentelemetry.io/otel/trace v1.38.0 // indirect
	go.starlark.net v0.0.0-20260102030733-3fee463870c9 // indirect
	go.uber.org/multierr v1.11.0 // indirect
	go.uber.org/zap v1.27.1 // indirect
	go.yaml.in/yaml/v3 v3.0.4 // indirect
	golang.org/x/crypto v0.45.0 // indirect
	golang.org/x/net v0.47.0 // indirect
	golang.org/x/oauth2 v0.33.0 // indirect
	golang.org/x/sync v0.18.0 // indirect
	golang.org/x/sys v0.38.0 // indirect
	golang.org/x/text v0.31.0 // indirect
	golang.org/x/time v0.14.0 // indirect
	google.golang.org/api v0.257.0 // indirect
	google.golang.org/genproto v0.0.0-20251202230838-ff82c1b0f217 // indirect
	google.golang.org/genproto/googleapis/api v0.0.0-20251202230838-ff82c1b0f217 // indirect
	google.golang.org/genproto/googleapis/rpc v0.0.0-20251202230838-ff82c1b0f217 // indirect
	google.golang.org/grpc v1.77.0 // indirect
)

replace grog => /repo
