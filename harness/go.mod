module grog/verif

go 1.26.0

require (
	grog v0.0.0
	pgregory.net/rapid v1.3.0
)

replace grog => /repo
