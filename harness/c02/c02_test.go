// C02 — only invalidated targets re-execute; a no-op rebuild runs nothing.
package c02

import (
	"os"
	"sort"
	"strings"
	"testing"

	"grog/verif/lib/histeng"
	"grog/verif/lib/pbt"

	"pgregory.net/rapid"
)

var profile = histeng.Profile{MaxTargets: 6, Edits: []string{"edit-content", "bump-nonce", "shift-boundary", "add-file", "rename-file", "edit-fingerprint", "reroute-alias"},
	Perturbs: append(append([]string{"relocate", "relocate"}, histeng.AllPerturbs...), histeng.AllPerturbs...), DirOutputs: true, BinOutputs: true, MinSteps: 4, MaxSteps: 12, SubsetBuilds: true, Minimal: true, Taint: true, Groups: true, NoCacheBuild: true, NoCacheTags: true}

func run(h histeng.History) (pbt.Result, error) {
	obs, err := histeng.RunHistory(h, os.Getenv("GROG_BIN"), histeng.Oracles{})
	res := pbt.Result{}
	for c := range obs.Classes {
		res.Classes = append(res.Classes, c)
	}
	sort.Strings(res.Classes)
	res.NonTrivial = obs.NonTrivial["hit-after-perturbation"] || obs.Classes["partial-rebuild"]
	if err != nil && strings.HasPrefix(err.Error(), "harness:") {
		return pbt.Result{Discard: true}, nil
	}
	return res, err
}

func TestHistories(t *testing.T) {
	if os.Getenv("GROG_BIN") == "" {
		t.Skip("GROG_BIN not set")
	}
	pbt.Main(t, pbt.Spec[histeng.History]{ID: "C02", Run: run,
		Gen: func(t *rapid.T) histeng.History { return histeng.GenHistory(t, profile) }})
}
