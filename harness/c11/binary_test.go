package c11

// Part "binary": the same generated graphs through the real binary. `grog check` must exit 0 exactly for the graphs
// the reference validator accepts; for rejected graphs `grog build //...` must also exit non-zero, print a
// diagnostic and execute nothing (every command would append a line to the trace file).

import (
	"os"
	"path/filepath"
	"strings"
	"testing"
	"time"

	"grog/verif/lib/histeng"
	"grog/verif/lib/pbt"
	"grog/verif/lib/refmodel"
	"grog/verif/lib/wsgen"

	"pgregory.net/rapid"
)

func TestBinary(t *testing.T) {
	bin := os.Getenv("GROG_BIN")
	if bin == "" {
		t.Skip("GROG_BIN not set")
	}
	pbt.Main(t, pbt.Spec[Case]{ID: "C11", Gen: gen,
		Run: func(c Case) (pbt.Result, error) {
			res := pbt.Result{}
			defects := refmodel.ValidateGraph(c.Graph)
			base, err := os.MkdirTemp("", "c11bin-")
			if err != nil {
				return pbt.Result{Discard: true}, nil
			}
			defer os.RemoveAll(base)
			sb, err := histeng.NewSandbox(base, bin)
			if err != nil {
				return pbt.Result{Discard: true}, nil
			}
			g := c.Graph
			g.Targets = append([]wsgen.Target{}, g.Targets...)
			for i := range g.Targets {
				g.Targets[i].Command = `printf 'S %s\n' "$GROG_TARGET" >> "$TRACE"`
			}
			files := g.BuildFiles()
			files["grog.toml"] = "num_workers = 2\n"
			if err := wsgen.WriteTree(sb.WS, files); err != nil {
				return pbt.Result{Discard: true}, nil
			}
			_ = os.MkdirAll(filepath.Join(sb.WS, "a/b"), 0o755)
			chk := sb.Grog("", 60*time.Second, "check")
			if chk.TimedOut || strings.Contains(chk.Out, "panic:") || strings.Contains(chk.Out, "fatal error:") {
				return res, pbt.Fail("C04:internal-crash", "grog check crashed or hung\n%s", chk.Out)
			}
			if len(defects) == 0 {
				res.Classes = append(res.Classes, "valid")
				if chk.Exit != 0 {
					return res, pbt.Fail("rejects-valid", "grog check exits %d for a graph free of the listed defects\n%s", chk.Exit, chk.Out)
				}
				return res, nil
			}
			res.NonTrivial = true
			res.Classes = append(res.Classes, "defect:"+defects[0].Kind)
			if chk.Exit == 0 {
				return res, pbt.Fail("accepts-invalid:"+defects[0].Kind, "grog check exits 0 although the graph has %v\n%s", defects, chk.Out)
			}
			if strings.TrimSpace(chk.Out) == "" {
				return res, pbt.Fail("no-diagnostic", "grog check rejected the graph without any message")
			}
			b := sb.Grog("", 60*time.Second, "build", "//...")
			if b.Exit == 0 {
				return res, pbt.Fail("accepts-invalid:"+defects[0].Kind, "grog build exits 0 although the graph has %v\n%s", defects, b.Out)
			}
			if len(b.Lines) > 0 {
				return res, pbt.Fail("executes-before-rejecting", "grog build rejected the graph (%v) but had already executed %v", defects, b.Lines)
			}
			return res, nil
		}})
}

var _ = rapid.Just[int]
