// C11 — invalid build graphs are rejected before anything runs; valid ones accepted.
//
// Generated graphs are written as BUILD files and pushed through the exact
// sequence `grog check` uses: LoadPackages -> BuildNodeMapFromPackages ->
// BuildGraph -> CheckTargetConstraints. Accept/reject must equal the reference
// validator (refmodel.ValidateGraph, written from the property's sentence),
// in both directions.
package c11

import (
	"context"
	"fmt"
	"os"
	"path/filepath"
	"sort"
	"strings"
	"testing"

	"grog/internal/analysis"
	"grog/internal/config"
	"grog/internal/console"
	"grog/internal/loading"
	"grog/internal/model"
	"grog/verif/lib/pbt"
	"grog/verif/lib/refmodel"
	"grog/verif/lib/wsgen"

	"pgregory.net/rapid"
)

type Case struct {
	Graph   wsgen.Graph `json:"graph"`
	Defects []string    `json:"injected"` // what the generator tried to inject (classification only)
}

var tmpRoot string

func pipeline(g wsgen.Graph) error {
	root := filepath.Join(tmpRoot, "ws")
	if err := os.RemoveAll(root); err != nil {
		return fmt.Errorf("harness: %w", err)
	}
	files := g.BuildFiles()
	files["grog.toml"] = ""
	if err := wsgen.WriteTree(root, files); err != nil {
		return fmt.Errorf("harness: %w", err)
	}
	config.Global = config.WorkspaceConfig{WorkspaceRoot: root, NumWorkers: 2, OS: "linux", Arch: "amd64", LogLevel: "error"}
	ctx := context.Background()
	pkgs, err := loading.LoadPackages(ctx, root)
	if err != nil {
		return fmt.Errorf("load: %w", err)
	}
	nodes, err := model.BuildNodeMapFromPackages(pkgs)
	if err != nil {
		return fmt.Errorf("nodemap: %w", err)
	}
	if _, err := analysis.BuildGraph(nodes); err != nil {
		return fmt.Errorf("graph: %w", err)
	}
	if errs := analysis.CheckTargetConstraints(console.GetLogger(ctx), nodes); len(errs) > 0 {
		return fmt.Errorf("constraints: %v", errs)
	}
	return nil
}

func run(c Case) (pbt.Result, error) {
	res := pbt.Result{}
	defects := refmodel.ValidateGraph(c.Graph)
	kinds := map[string]bool{}
	for _, d := range defects {
		kinds[d.Kind] = true
	}
	var ks []string
	for k := range kinds {
		ks = append(ks, k)
	}
	sort.Strings(ks)
	err := pipeline(c.Graph)
	if err != nil && strings.HasPrefix(err.Error(), "harness:") {
		return res, err
	}
	hasAlias := len(c.Graph.Aliases) > 0
	nearMiss := false
	for _, d := range c.Defects {
		if strings.HasPrefix(d, "near:") {
			nearMiss = true
		}
	}
	if len(ks) == 0 {
		res.Classes = append(res.Classes, "valid")
	}
	for _, k := range ks {
		res.Classes = append(res.Classes, "defect:"+k)
	}
	for _, d := range c.Defects {
		if strings.HasPrefix(d, "near:") {
			res.Classes = append(res.Classes, d)
		}
	}
	res.NonTrivial = (hasAlias && len(ks) > 0) || nearMiss
	if len(ks) > 0 && err == nil {
		return res, pbt.Fail("accepts-invalid:"+ks[0], "graph has defects %v but was accepted", defects)
	}
	if len(ks) == 0 && err != nil {
		return res, pbt.Fail("rejects-valid", "graph is free of the listed defects but was rejected: %v", err)
	}
	return res, nil
}

// ---------------------------------------------------------------- generator

// spellings of one output slot "x" / directory "d"; escaping depends on package depth
var fileSpellings = []string{"x", "./x", "sub/../x", "y", "d/f", "d/e/g", "../x", "../../x", "../../../x", "/abs/x", "a/../../x"}
var dirSpellings = []string{"dir::d", "dir::d/", "dir::./d", "dir::d/e", "dir::dd", "dir::../d", "dir::../../d", "dir::../../../d", "dir::/abs/d", "dir::x"}
var dockerSpellings = []string{"docker::img", "docker::img:v1", "docker::other"}

func depth(pkg string) int {
	if pkg == "" {
		return 0
	}
	return strings.Count(pkg, "/") + 1
}

func cleanOut(pkg, def string) (string, bool) {
	id := def
	if i := strings.Index(def, "::"); i >= 0 {
		if def[:i] == "docker" {
			return "docker:" + def[i+2:], true
		}
		id = def[i+2:]
	}
	return filepath.Clean(filepath.Join(pkg, id)), false
}

// selfOverlap: would output o overlap another output of the same target? (kept out of the domain)
func selfOverlap(pkg string, existing []string, o string) bool {
	po, docker := cleanOut(pkg, o)
	for _, e := range existing {
		pe, edocker := cleanOut(pkg, e)
		if docker || edocker {
			if po == pe {
				return true
			}
			continue
		}
		if po == pe || strings.HasPrefix(po, pe+"/") || strings.HasPrefix(pe, po+"/") {
			return true
		}
	}
	return false
}

func gen(t *rapid.T) Case {
	g := wsgen.GenGraph(t, wsgen.GraphOpts{MaxTargets: 6, Pkgs: []string{"", "a", "a/b", "ab"}, Tests: true, Tags: []string{"testonly"}, AliasPct: 40, FreeAliases: 2, EdgePct: 30})
	c := Case{}
	for i := range g.Targets {
		tg := &g.Targets[i]
		tg.Command = "true"
		if rapid.IntRange(0, 4).Draw(t, "yamlfile") == 0 {
			tg.File = "yaml"
		}
		no := rapid.IntRange(0, 2).Draw(t, "nout")
		for k := 0; k < no; k++ {
			var o string
			switch rapid.IntRange(0, 9).Draw(t, "outkind") {
			case 0, 1, 2, 3, 4:
				// mostly safe spellings; escaping ones are rarer so that valid graphs stay common
				o = rapid.SampledFrom(fileSpellings[:6]).Draw(t, "fout")
			case 5, 6, 7:
				o = rapid.SampledFrom(dirSpellings[:5]).Draw(t, "dout")
			case 8:
				o = rapid.SampledFrom(dockerSpellings).Draw(t, "kout")
			default:
				if rapid.Bool().Draw(t, "escfile") {
					o = rapid.SampledFrom(fileSpellings[6:]).Draw(t, "fesc")
				} else {
					o = rapid.SampledFrom(dirSpellings[5:]).Draw(t, "desc")
				}
				if po, _ := cleanOut(tg.Pkg, o); strings.HasPrefix(po, "..") || strings.HasPrefix(po, "/") {
					c.Defects = append(c.Defects, "output-escape")
				} else {
					c.Defects = append(c.Defects, "near:dotdot-output-inside-workspace")
				}
			}
			if !selfOverlap(tg.Pkg, tg.Outputs, o) {
				tg.Outputs = append(tg.Outputs, o)
			}
		}
		if rapid.IntRange(0, 5).Draw(t, "inputs") == 0 {
			in := rapid.SampledFrom([]string{"src.txt", "sub/../src.txt", "a/..b", "./src.txt", "sub/./x/../y.txt", "..x", "../src.txt", "sub/../../src.txt", "/etc/passwd", "./../x", "..", "x/../../y"}).Draw(t, "input")
			tg.Inputs = append(tg.Inputs, in)
		}
	}
	// output-sharing between random pairs produces both conflicts and legal (ordered) near-misses
	if len(g.Targets) >= 2 && rapid.IntRange(0, 2).Draw(t, "share") == 0 {
		i := rapid.IntRange(0, len(g.Targets)-1).Draw(t, "si")
		j := rapid.IntRange(0, len(g.Targets)-1).Draw(t, "sj")
		if i != j {
			a, b := &g.Targets[i], &g.Targets[j]
			// pick spellings so that both name the same workspace path from their own package
			rel, err := filepath.Rel(filepath.Join("/", b.Pkg), filepath.Join("/", a.Pkg, "shared"))
			if err == nil {
				oa, ob := "shared", rel
				switch rapid.IntRange(0, 3).Draw(t, "sharekind") {
				case 0:
				case 1:
					oa, ob = "dir::shared", "dir::"+rel
				case 2:
					oa, ob = "dir::shared", rel+"/inner.txt"
				default:
					oa, ob = "dir::shared/deep", "dir::"+rel
				}
				if !selfOverlap(a.Pkg, a.Outputs, oa) && !selfOverlap(b.Pkg, b.Outputs, ob) {
					a.Outputs = append(a.Outputs, oa)
					b.Outputs = append(b.Outputs, ob)
					anc := g.Closure([]string{a.Label()})
					anc2 := g.Closure([]string{b.Label()})
					if anc[b.Label()] || anc2[a.Label()] {
						c.Defects = append(c.Defects, "near:overlap-but-ordered")
					} else {
						c.Defects = append(c.Defects, "overlap")
					}
				}
			}
		}
	}
	// cluster mode: 3-4 targets declare outputs drawn from a family of paths whose
	// lexicographic order does not follow the nesting order (d < d-x < d/e < dd)
	if len(g.Targets) >= 3 && rapid.IntRange(0, 3).Draw(t, "cluster") == 0 {
		base := rapid.SampledFrom([]string{"", "a"}).Draw(t, "clusterpkg")
		family := []string{"dir::d", "dir::d/e", "dir::d/e/f", "dir::d-x", "dir::d.x", "dir::d+y", "dir::d x", "dir::dd", "dir::d/e-x", "d/f", "d-x/f", "d.x", "d/e/f/g"}
		k := rapid.IntRange(3, min(4, len(g.Targets))).Draw(t, "clusterk")
		idxs := rapid.SliceOfNDistinct(rapid.IntRange(0, len(g.Targets)-1), k, k, rapid.ID[int]).Draw(t, "clusteridx")
		outs := rapid.SliceOfNDistinct(rapid.SampledFrom(family), k, k, rapid.ID[string]).Draw(t, "clusterouts")
		for n, i := range idxs {
			tg := &g.Targets[i]
			typ, id := "", outs[n]
			if strings.HasPrefix(id, "dir::") {
				typ, id = "dir::", strings.TrimPrefix(id, "dir::")
			}
			rel, err := filepath.Rel(filepath.Join("/", tg.Pkg), filepath.Join("/", base, id))
			if err != nil {
				continue
			}
			if o := typ + rel; !selfOverlap(tg.Pkg, tg.Outputs, o) {
				tg.Outputs = append(tg.Outputs, o)
			}
		}
		c.Defects = append(c.Defects, "cluster")
	}
	// structural defects
	switch rapid.IntRange(0, 17).Draw(t, "defect") - 4 { // rapid favours small values: the low end means "no injection"
	case 0: // undefined dependency
		i := rapid.IntRange(0, len(g.Targets)-1).Draw(t, "ui")
		g.Targets[i].Deps = append(g.Targets[i].Deps, rapid.SampledFrom([]string{"//a:nosuch", "//nopkg:x", "//:missing"}).Draw(t, "ulabel"))
		c.Defects = append(c.Defects, "undefined")
	case 1: // alias to undefined
		g.Aliases = append(g.Aliases, wsgen.Alias{Pkg: "a", Name: "dangling", Actual: "//a:nosuch"})
		c.Defects = append(c.Defects, "undefined-alias")
	case 2: // self dependency
		i := rapid.IntRange(0, len(g.Targets)-1).Draw(t, "si2")
		g.Targets[i].Deps = append(g.Targets[i].Deps, g.Targets[i].Label())
		c.Defects = append(c.Defects, "self-dep")
	case 3: // alias to itself / alias cycle
		if rapid.Bool().Draw(t, "selfalias") {
			g.Aliases = append(g.Aliases, wsgen.Alias{Pkg: "ab", Name: "loop", Actual: "//ab:loop"})
		} else {
			g.Aliases = append(g.Aliases, wsgen.Alias{Pkg: "ab", Name: "loop1", Actual: "//ab:loop2"}, wsgen.Alias{Pkg: "ab", Name: "loop2", Actual: "//ab:loop1"})
		}
		c.Defects = append(c.Defects, "alias-cycle")
	case 4: // back edge (possibly through a fresh alias): cycle iff the later target reaches the earlier one
		if len(g.Targets) >= 2 {
			i := rapid.IntRange(0, len(g.Targets)-2).Draw(t, "bi")
			j := rapid.IntRange(i+1, len(g.Targets)-1).Draw(t, "bj")
			dep := g.Targets[j].Label()
			if rapid.Bool().Draw(t, "backalias") {
				g.Aliases = append(g.Aliases, wsgen.Alias{Pkg: g.Targets[i].Pkg, Name: "back", Actual: dep})
				dep = wsgen.Label(g.Targets[i].Pkg, "back")
			}
			if !(g.Targets[j].IsTest() && !g.Targets[i].IsTest()) && !(g.Targets[j].HasTag("testonly") && !g.Targets[i].HasTag("testonly") && !g.Targets[i].IsTest()) {
				g.Targets[i].Deps = append(g.Targets[i].Deps, dep)
				if g.Closure([]string{g.Targets[j].Label()})[g.Targets[i].Label()] {
					c.Defects = append(c.Defects, "cycle")
				} else {
					c.Defects = append(c.Defects, "near:back-edge-without-cycle")
				}
			}
		}
	case 5: // duplicate label: same file, across BUILD.json/BUILD.yaml, or target vs alias
		i := rapid.IntRange(0, len(g.Targets)-1).Draw(t, "di")
		dup := g.Targets[i]
		dup.Deps, dup.Outputs = nil, nil
		switch rapid.IntRange(0, 2).Draw(t, "dupkind") {
		case 0:
			g.Targets = append(g.Targets, dup)
		case 1:
			if dup.File == "yaml" {
				dup.File = ""
			} else {
				dup.File = "yaml"
			}
			g.Targets = append(g.Targets, dup)
		default:
			a := wsgen.Alias{Pkg: dup.Pkg, Name: dup.Name, Actual: g.Targets[0].Label(), File: rapid.SampledFrom([]string{"", "yaml"}).Draw(t, "aliasfile")}
			if a.Actual == a.Label() && len(g.Targets) > 1 {
				a.Actual = g.Targets[1].Label()
			}
			g.Aliases = append(g.Aliases, a)
		}
		c.Defects = append(c.Defects, "duplicate")
	case 6: // non-test depends on test / testonly, directly or through an alias
		var from, to *wsgen.Target
		for i := range g.Targets {
			if !g.Targets[i].IsTest() && !g.Targets[i].HasTag("testonly") {
				from = &g.Targets[i]
			}
		}
		for i := range g.Targets {
			if (g.Targets[i].IsTest() || g.Targets[i].HasTag("testonly")) && (from == nil || !g.Closure([]string{g.Targets[i].Label()})[from.Label()]) {
				to = &g.Targets[i]
			}
		}
		if from != nil && to != nil {
			dep := to.Label()
			if rapid.Bool().Draw(t, "testalias") {
				g.Aliases = append(g.Aliases, wsgen.Alias{Pkg: from.Pkg, Name: "tal", Actual: dep})
				dep = wsgen.Label(from.Pkg, "tal")
				if rapid.Bool().Draw(t, "chain") {
					g.Aliases = append(g.Aliases, wsgen.Alias{Pkg: from.Pkg, Name: "tal2", Actual: dep})
					dep = wsgen.Label(from.Pkg, "tal2")
				}
				// the same alias is also used by dependants that are allowed to (tests, testonly targets): the verdict on the
				// offending edge must not depend on who looked through the alias first
				reach := g.Closure([]string{to.Label()})
				for i := range g.Targets {
					x := &g.Targets[i]
					if x != to && x != from && (x.IsTest() || x.HasTag("testonly")) && !reach[x.Label()] && rapid.Bool().Draw(t, "shared") {
						x.Deps = append(x.Deps, dep)
					}
				}
			}
			from.Deps = append(from.Deps, dep)
			c.Defects = append(c.Defects, "test-dependency")
		}
	}
	c.Graph = g
	return c
}

func TestMain(m *testing.M) {
	dir, err := os.MkdirTemp("", "c11-")
	if err != nil {
		panic(err)
	}
	tmpRoot = dir
	code := m.Run()
	_ = os.RemoveAll(dir)
	os.Exit(code)
}

func TestGraphs(t *testing.T) {
	pbt.Main(t, pbt.Spec[Case]{ID: "C11", Gen: gen, Run: run})
}

// TestEnumPairs: exhaustive small scope — every pair of single-output targets
// over three packages x all output spellings x {independent, ordered directly,
// ordered through an alias}.
func TestEnumPairs(t *testing.T) {
	pkgs := []string{"", "a", "a/b"}
	var spell []string
	spell = append(spell, fileSpellings...)
	spell = append(spell, dirSpellings...)
	spell = append(spell, dockerSpellings[:2]...)
	shard, shards := 0, 1
	fmt.Sscan(os.Getenv("VERIF_SHARD"), &shard)
	fmt.Sscan(os.Getenv("VERIF_SHARDS"), &shards)
	if shards < 1 {
		shards = 1
	}
	pbt.Enumerate(t, pbt.Spec[Case]{ID: "C11", Run: run}, func(yield func(Case) bool) {
		idx := 0
		for _, pa := range pkgs {
			for _, pb := range pkgs {
				for _, oa := range spell {
					for _, ob := range spell {
						for order := 0; order < 3; order++ {
							idx++
							if idx%shards != shard {
								continue
							}
							a := wsgen.Target{Pkg: pa, Name: "ta", Command: "true", Outputs: []string{oa}}
							b := wsgen.Target{Pkg: pb, Name: "tb", Command: "true", Outputs: []string{ob}}
							g := wsgen.Graph{}
							inj := []string{}
							switch order {
							case 1:
								b.Deps = []string{a.Label()}
								inj = append(inj, "near:overlap-but-ordered")
							case 2:
								g.Aliases = []wsgen.Alias{{Pkg: pb, Name: "al", Actual: a.Label()}}
								b.Deps = []string{wsgen.Label(pb, "al")}
								inj = append(inj, "near:overlap-but-ordered")
							}
							g.Targets = []wsgen.Target{a, b}
							if order > 0 {
								// a real near-miss only if the same two targets would conflict when independent
								a0, b0 := a, b
								b0.Deps = nil
								overlap := false
								for _, d := range refmodel.ValidateGraph(wsgen.Graph{Targets: []wsgen.Target{a0, b0}}) {
									if strings.HasPrefix(d.Kind, "overlap:") {
										overlap = true
									}
								}
								if !overlap {
									inj = nil
								}
							}
							if !yield(Case{Graph: g, Defects: inj}) {
								return
							}
						}
					}
				}
			}
		}
	})
}
