// C10 — at most one grog build runs in a workspace; stale locks are recovered.
//
// Contenders are real OS processes running the real locker, built at check time
// with a build overlay in which every file-system call, write, close, liveness
// probe and back-off timer of the current workspace_locker.go is a yield point.
// The controller owns the interleaving at that granularity and may kill -9 a
// process at any yield point.
package c10

import (
	"bufio"
	"encoding/json"
	"fmt"
	"os"
	"os/exec"
	"path/filepath"
	"strconv"
	"strings"
	"syscall"
	"testing"
	"time"

	"grog/internal/config"
	"grog/verif/lib/pbt"

	"pgregory.net/rapid"
)

type Case struct {
	Procs    int    `json:"procs"`
	Initial  string `json:"initial_lock_file"` // absent | empty | garbage | dead-pid | live-pid
	Schedule []int  `json:"schedule"`          // choice indices into the enabled-action list at each step
	MaxKills int    `json:"max_kills"`
	// MaxCancels: how many waiting processes may have their context cancelled (ctrl-C while waiting)
	MaxCancels int `json:"max_cancels,omitempty"`
	// Warmup: process 0 alone gets this many steps first (so that schedules start from "someone holds / is about to hold")
	Warmup int `json:"warmup,omitempty"`
}

type proc struct {
	id        int
	cmd       *exec.Cmd
	toChild   *os.File
	from      *bufio.Reader
	fromF     *os.File
	pending   string // announced operation the process is blocked on ("" = not yet announced / finished)
	detail    string
	alive     bool
	done      bool
	held      bool // ever reached "held"
	cancelled bool
	pid       int
}

var contenderBin string
var tmpRoot string

type traceStep struct {
	Proc   int    `json:"proc"`
	Action string `json:"action"` // the operation that was allowed to proceed, or "KILL"
}

type runResult struct {
	trace     []traceStep
	branching []int
	violation error
	classes   map[string]bool
	acquired  int
}

func spawn(id int, root, ws string) (*proc, error) {
	toChildR, toChildW, err := os.Pipe()
	if err != nil {
		return nil, err
	}
	fromChildR, fromChildW, err := os.Pipe()
	if err != nil {
		return nil, err
	}
	cmd := exec.Command(contenderBin)
	cmd.Env = append(os.Environ(), "CONTENDER_ROOT="+root, "CONTENDER_WORKSPACE="+ws)
	cmd.ExtraFiles = []*os.File{fromChildW, toChildR} // fd 3 = announcements, fd 4 = permissions
	cmd.Stdout = nil
	cmd.Stderr = nil
	if err := cmd.Start(); err != nil {
		return nil, err
	}
	fromChildW.Close()
	toChildR.Close()
	return &proc{id: id, cmd: cmd, toChild: toChildW, from: bufio.NewReader(fromChildR), fromF: fromChildR, alive: true, pid: cmd.Process.Pid}, nil
}

// await reads the next announcement of p (or notices that it exited).
func (p *proc) await() {
	p.fromF.SetReadDeadline(time.Now().Add(20 * time.Second))
	line, err := p.from.ReadString('\n')
	if err != nil {
		p.pending = ""
		p.alive = false
		p.done = true
		_ = p.cmd.Wait()
		return
	}
	parts := strings.SplitN(strings.TrimSpace(line), " ", 2)
	p.pending = parts[0]
	p.detail = ""
	if len(parts) > 1 {
		p.detail = parts[1]
	}
}

func (p *proc) step() { p.reply("go") }

func (p *proc) reply(word string) {
	fmt.Fprintln(p.toChild, word)
	if p.pending == "released" || p.pending == "cancelled" {
		p.done = true
	}
	p.await()
}

func (p *proc) kill() {
	_ = p.cmd.Process.Signal(syscall.SIGKILL)
	_ = p.cmd.Wait() // reap: a zombie would still look alive to kill(pid, 0)
	p.alive = false
	p.done = true
	p.pending = ""
	p.toChild.Close()
	p.fromF.Close()
}

func deadPid() int {
	c := exec.Command("true")
	_ = c.Run()
	return c.Process.Pid
}

func execute(c Case, finish bool) runResult {
	res := runResult{classes: map[string]bool{}}
	base, err := os.MkdirTemp(tmpRoot, "run-")
	if err != nil {
		res.violation = fmt.Errorf("harness: %w", err)
		return res
	}
	defer os.RemoveAll(base)
	root, ws := filepath.Join(base, "root"), filepath.Join(base, "ws")
	config.Global.Root, config.Global.WorkspaceRoot = root, ws
	lockDir := config.Global.GetWorkspaceRootDir()
	_ = os.MkdirAll(lockDir, 0o755)
	_ = os.MkdirAll(ws, 0o755)
	lockPath := filepath.Join(lockDir, "lockfile")
	switch c.Initial {
	case "empty":
		_ = os.WriteFile(lockPath, nil, 0o644)
	case "garbage":
		_ = os.WriteFile(lockPath, []byte("not-a-pid\n"), 0o644)
	case "dead-pid":
		_ = os.WriteFile(lockPath, []byte(strconv.Itoa(deadPid())), 0o644)
	case "live-pid":
		_ = os.WriteFile(lockPath, []byte(strconv.Itoa(os.Getpid())), 0o644)
	}
	var procs []*proc
	defer func() {
		for _, p := range procs {
			if p.alive {
				p.kill()
			}
		}
	}()
	for i := 0; i < c.Procs; i++ {
		p, err := spawn(i, root, ws)
		if err != nil {
			res.violation = fmt.Errorf("harness: %w", err)
			return res
		}
		procs = append(procs, p)
		p.await() // "start"
	}
	kills := 0
	holders := func() []int {
		var hs []int
		for _, p := range procs {
			if p.alive && p.pending == "held" {
				hs = append(hs, p.id)
			}
		}
		return hs
	}
	type action struct {
		p      *proc
		kill   bool
		cancel bool
	}
	cancels := 0
	enabled := func() []action {
		var as []action
		for _, p := range procs {
			if p.alive && !p.done {
				as = append(as, action{p: p})
			}
		}
		if kills < c.MaxKills {
			for _, p := range procs {
				if p.alive && !p.done && p.pending != "start" {
					as = append(as, action{p: p, kill: true})
				}
			}
		}
		if cancels < c.MaxCancels {
			for _, p := range procs {
				if p.alive && !p.done && p.pending == "sleep" {
					as = append(as, action{p: p, cancel: true})
				}
			}
		}
		return as
	}
	lastRead := map[int]string{} // what each process last observed of the lock file (for classification)
	perform := func(a action) {
		if a.kill {
			res.trace = append(res.trace, traceStep{a.p.id, "KILL@" + a.p.pending})
			if a.p.pending == "held" {
				res.classes["holder-crash"] = true
			} else {
				res.classes["contender-crash"] = true
			}
			kills++
			a.p.kill()
			return
		}
		op := a.p.pending
		if a.cancel {
			res.trace = append(res.trace, traceStep{a.p.id, "CANCEL@" + op})
			res.classes["waiter-cancelled"] = true
			cancels++
			a.p.cancelled = true
			a.p.reply("cancel")
			return
		}
		res.trace = append(res.trace, traceStep{a.p.id, op})
		switch op {
		case "read":
			data, err := os.ReadFile(lockPath)
			if err == nil && strings.TrimSpace(string(data)) == "" {
				res.classes["observed-between-create-and-write"] = true
			}
			lastRead[a.p.id] = string(data)
		case "remove":
			data, err := os.ReadFile(lockPath)
			if err == nil && lastRead[a.p.id] != "" && string(data) != lastRead[a.p.id] {
				res.classes["remove-after-lock-changed"] = true
			}
		}
		a.p.step()
		if a.p.pending == "held" {
			a.p.held = true
			res.acquired++
		}
		if a.p.pending == "lockerr" || a.p.pending == "unlockerr" {
			res.classes["locker-error"] = true
		}
	}
	check := func() error {
		if hs := holders(); len(hs) > 1 {
			return pbt.Fail("two-holders:"+signature(res.trace, hs), "processes %v are both past Lock() and have not started Unlock().\ninitial lock file: %s\ntrace: %s", hs, c.Initial, traceString(res.trace))
		}
		for _, p := range procs {
			if p.pending == "lockerr" {
				return pbt.Fail("lock-returned-error", "process %d: Lock returned an error: %s\ntrace: %s", p.id, p.detail, traceString(res.trace))
			}
		}
		return nil
	}
	for i := 0; i < c.Warmup && procs[0].alive && !procs[0].done && procs[0].pending != "held"; i++ {
		perform(action{p: procs[0]})
		if err := check(); err != nil {
			res.violation = err
			return res
		}
	}
	for _, choice := range c.Schedule {
		as := enabled()
		res.branching = append(res.branching, len(as))
		if len(as) == 0 {
			break
		}
		perform(as[choice%len(as)])
		if err := check(); err != nil {
			res.violation = err
			return res
		}
	}
	if !finish {
		return res
	}
	// While somebody holds the lock, a newcomer must not get it (catches a lock file that was
	// deleted or replaced behind the holder's back even when nobody else is contending right now).
	if hs := holders(); len(hs) == 1 {
		prober, err := spawn(98, root, ws)
		if err == nil {
			procs = append(procs, prober)
			prober.await()
			for i := 0; i < 12 && prober.alive && !prober.done && prober.pending != "held"; i++ {
				perform(action{p: prober})
			}
			if err := check(); err != nil {
				res.violation = err
				return res
			}
			if prober.alive {
				prober.kill()
			}
		}
	}
	// recovery / progress: run the survivors round-robin to completion
	if c.Initial == "live-pid" {
		return res // a lock held by a live unrelated process legitimately blocks everybody
	}
	steps := 0
	for {
		progressed := false
		for _, p := range procs {
			if p.alive && !p.done {
				perform(action{p: p})
				progressed = true
				steps++
				if err := check(); err != nil {
					res.violation = err
					return res
				}
			}
		}
		if !progressed {
			break
		}
		if steps > 400*c.Procs {
			var stuck []string
			for _, p := range procs {
				if p.alive && !p.done {
					stuck = append(stuck, fmt.Sprintf("p%d@%s", p.id, p.pending))
				}
			}
			res.violation = pbt.Fail("no-progress", "after the schedule, %d round-robin steps did not let the survivors finish (stuck: %v)\ninitial: %s\ntrace: %s", steps, stuck, c.Initial, traceString(res.trace[:min(len(res.trace), 60)]))
			return res
		}
	}
	for _, p := range procs {
		if p.id >= 90 || p.cancelled {
			continue
		}
		if p.alive || (!p.held && !strings.HasPrefix(lastAction(res.trace, p.id), "KILL")) {
			if !p.held {
				res.violation = pbt.Fail("survivor-never-acquired", "process %d finished without ever holding the lock\ntrace: %s", p.id, traceString(res.trace))
				return res
			}
		}
	}
	// a fresh process against whatever the history left behind
	fresh, err := spawn(99, root, ws)
	if err != nil {
		res.violation = fmt.Errorf("harness: %w", err)
		return res
	}
	procs = append(procs, fresh)
	fresh.await()
	for i := 0; i < 60 && fresh.alive && !fresh.done; i++ {
		perform(action{p: fresh})
	}
	if !fresh.held {
		left, _ := os.ReadFile(lockPath)
		res.violation = pbt.Fail("stale-lock-blocks-new-build", "a fresh process could not acquire the lock within 60 steps; lock file left behind: %q\ntrace: %s", string(left), traceString(res.trace))
	}
	return res
}

func lastAction(tr []traceStep, id int) string {
	for i := len(tr) - 1; i >= 0; i-- {
		if tr[i].Proc == id {
			return tr[i].Action
		}
	}
	return ""
}

func traceString(tr []traceStep) string {
	var parts []string
	for _, s := range tr {
		parts = append(parts, fmt.Sprintf("p%d:%s", s.Proc, s.Action))
	}
	return strings.Join(parts, " ")
}

// signature names the root cause: which removal (and after what observation) destroyed a live lock.
func signature(tr []traceStep, holders []int) string {
	// the last "remove" performed by someone other than the first holder before the second acquisition
	lastRemove, lastObs := "", ""
	obs := map[int]string{}
	for _, s := range tr {
		switch s.Action {
		case "read":
			obs[s.Proc] = "read"
		case "probe":
			obs[s.Proc] = "probe"
		case "remove":
			lastRemove = fmt.Sprintf("remove-after-%s", obs[s.Proc])
			lastObs = obs[s.Proc]
		}
	}
	_ = lastObs
	if lastRemove == "" {
		return "no-remove"
	}
	return lastRemove
}

func run(c Case) (pbt.Result, error) {
	r := execute(c, true)
	res := pbt.Result{}
	for k := range r.classes {
		res.Classes = append(res.Classes, k)
	}
	res.Classes = append(res.Classes, "initial:"+c.Initial)
	res.NonTrivial = r.classes["observed-between-create-and-write"] || r.classes["remove-after-lock-changed"] || r.classes["holder-crash"] || r.classes["contender-crash"] || r.classes["waiter-cancelled"]
	lastBranching = r.branching
	if r.violation != nil {
		if strings.HasPrefix(r.violation.Error(), "harness:") {
			return pbt.Result{Discard: true}, nil
		}
		return res, r.violation
	}
	return res, nil
}

var lastBranching []int

var initials = []string{"absent", "empty", "garbage", "dead-pid", "live-pid"}

// TestRandom: 2-3 processes, rapid-drawn schedules and crash points.
func TestRandom(t *testing.T) {
	pbt.Main(t, pbt.Spec[Case]{ID: "C10", Run: run,
		Gen: func(t *rapid.T) Case {
			c := Case{Procs: rapid.IntRange(2, 3).Draw(t, "procs"), Initial: rapid.SampledFrom(initials).Draw(t, "initial"), MaxKills: rapid.IntRange(0, 2).Draw(t, "kills"), MaxCancels: rapid.IntRange(0, 1).Draw(t, "cancels"),
				Warmup: rapid.SampledFrom([]int{0, 0, 3, 6, 12}).Draw(t, "warmup")}
			n := rapid.IntRange(0, 40).Draw(t, "len")
			for i := 0; i < n; i++ {
				c.Schedule = append(c.Schedule, rapid.IntRange(0, 11).Draw(t, "choice"))
			}
			return c
		}})
}

// TestDFS: bounded exhaustive enumeration of all 2-process schedules up to
// VERIF_DEPTH scheduling decisions with at most one crash, for every initial
// lock-file state (stateless search: each schedule re-executes from scratch).
func TestDFS(t *testing.T) {
	depth := 8
	fmt.Sscan(os.Getenv("VERIF_DEPTH"), &depth)
	shard, shards := 0, 1
	fmt.Sscan(os.Getenv("VERIF_SHARD"), &shard)
	fmt.Sscan(os.Getenv("VERIF_SHARDS"), &shards)
	if shards < 1 {
		shards = 1
	}
	// Sharding by schedule prefix: the first prefixLen decisions are fixed per work item,
	// the DFS odometer only runs over the remaining positions.
	const prefixLen, maxBranch = 3, 5
	pbt.Enumerate(t, pbt.Spec[Case]{ID: "C10", Run: run}, func(yield func(Case) bool) {
		item := 0
		type dims struct{ kills, cancels, warmup int }
		for _, initial := range initials {
			// from a cold start, and from "process 0 already holds the lock" (warm-up), where a waiter may also be cancelled
			for _, d := range []dims{{0, 0, 0}, {1, 0, 0}, {1, 0, 12}, {0, 1, 12}} {
				kills := d.kills
				for pfx := 0; pfx < maxBranch*maxBranch*maxBranch; pfx++ {
					item++
					if item%shards != shard {
						continue
					}
					sched := make([]int, depth)
					sched[0], sched[1], sched[2] = pfx/(maxBranch*maxBranch), (pfx/maxBranch)%maxBranch, pfx%maxBranch
					first := true
					for {
						// a prefix choice beyond the branching factor at its position names no schedule: detect it on the first run
						if first {
							bf := execute(Case{Procs: 2, Initial: initial, Schedule: sched[:prefixLen], MaxKills: kills, MaxCancels: d.cancels, Warmup: d.warmup}, false).branching
							valid := len(bf) == prefixLen
							for i := 0; valid && i < prefixLen; i++ {
								if sched[i] >= bf[i] {
									valid = false
								}
							}
							if !valid {
								break
							}
							first = false
						}
						if !yield(Case{Procs: 2, Initial: initial, Schedule: append([]int{}, sched...), MaxKills: kills, MaxCancels: d.cancels, Warmup: d.warmup}) {
							return
						}
						bf := lastBranching
						i := len(bf) - 1
						if i >= depth {
							i = depth - 1
						}
						for ; i >= prefixLen; i-- {
							if bf[i] > 0 && sched[i]+1 < bf[i] {
								sched[i]++
								for j := i + 1; j < depth; j++ {
									sched[j] = 0
								}
								break
							}
						}
						if i < prefixLen {
							break
						}
					}
				}
			}
		}
	})
}

func TestMain(m *testing.M) {
	dir, err := os.MkdirTemp("", "c10-")
	if err != nil {
		panic(err)
	}
	tmpRoot = dir
	if err := buildContender(dir); err != nil {
		fmt.Fprintln(os.Stderr, "INFRA: cannot build the contender:", err)
		os.Exit(2)
	}
	code := m.Run()
	_ = os.RemoveAll(dir)
	os.Exit(code)
}

// buildContender rewrites the CURRENT workspace_locker.go into a build overlay and builds the contender with it.
func buildContender(dir string) error {
	repo := os.Getenv("VERIF_REPO")
	if repo == "" {
		repo = "/repo"
	}
	verif := os.Getenv("VERIF_ROOT")
	if verif == "" {
		verif = "/verif"
	}
	harness := filepath.Join(verif, "harness")
	goflags := os.Getenv("GOFLAGS") // the driver may point at an alternative go.mod (-modfile) when VERIF_REPO is not /repo
	if goflags == "" {
		goflags = "-mod=mod"
	}
	env := append(os.Environ(), "GOTOOLCHAIN=local", "GOPROXY=off", "GOSUMDB=off", "GOFLAGS="+goflags, "CGO_ENABLED=0")
	runIn := func(wd string, args ...string) error {
		cmd := exec.Command(args[0], args[1:]...)
		cmd.Dir = wd
		cmd.Env = env
		out, err := cmd.CombinedOutput()
		if err != nil {
			return fmt.Errorf("%v: %v\n%s", args, err, out)
		}
		return nil
	}
	rewriter := filepath.Join(dir, "lockrewrite")
	if err := runIn(harness, "go1.26.8", "build", "-o", rewriter, "./cmd/lockrewrite"); err != nil {
		return err
	}
	src := filepath.Join(repo, "internal/locking/workspace_locker.go")
	rewritten := filepath.Join(dir, "workspace_locker_rewritten.go")
	if err := runIn(harness, rewriter, src, rewritten); err != nil {
		return err
	}
	hooks := filepath.Join(dir, "zz_verif_hooks.go")
	data, err := os.ReadFile(filepath.Join(harness, "c10/hooks.go.txt"))
	if err != nil {
		return err
	}
	if err := os.WriteFile(hooks, data, 0o644); err != nil {
		return err
	}
	overlay := map[string]any{"Replace": map[string]string{src: rewritten, filepath.Join(repo, "internal/locking/zz_verif_hooks.go"): hooks}}
	ob, _ := json.Marshal(overlay)
	overlayPath := filepath.Join(dir, "overlay.json")
	if err := os.WriteFile(overlayPath, ob, 0o644); err != nil {
		return err
	}
	contenderBin = filepath.Join(dir, "contender")
	return runIn(harness, "go1.26.8", "build", "-tags", "verifoverlay", "-overlay", overlayPath, "-o", contenderBin, "./cmd/contender")
}
