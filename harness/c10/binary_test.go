package c10

// Part "binary": several real `grog build` processes in one workspace. The overlay parts own the schedule of the locker
// itself; this part observes the whole command (lock taken after loading, held across the execution, released on every
// exit path incl. signals) with sampled timing: commands are slow, processes start at generated offsets, one of them may
// be killed (SIGKILL to its process group) or interrupted (SIGINT) at a generated time. Every command reports the pid of
// the grog process that runs it, so the trace shows whether two live grog processes ever executed commands at the same
// time, and whether the survivors finish.

import (
	"bytes"
	"fmt"
	"os"
	"os/exec"
	"path/filepath"
	"strconv"
	"strings"
	"sync"
	"syscall"
	"testing"
	"time"

	"grog/verif/lib/histeng"
	"grog/verif/lib/pbt"

	"pgregory.net/rapid"
)

type BProc struct {
	DelayMs int    `json:"delay_ms"`
	Signal  string `json:"signal,omitempty"` // "" | KILL | INT
	AfterMs int    `json:"after_ms,omitempty"`
}

type BCase struct {
	WS    histeng.WS `json:"workspace"`
	Procs []BProc    `json:"procs"`
	// Orphan: the holder alone is killed (SIGKILL to the grog pid, not to its process group) after KillMs while its
	// command keeps running for seconds; the lock of a dead build must not stay taken because a child of it lives on
	Orphan bool `json:"orphan,omitempty"`
	KillMs int  `json:"kill_ms,omitempty"`
}

func runOrphan(c BCase) (pbt.Result, error) {
	res := pbt.Result{Classes: []string{"orphan-holder"}}
	base, err := os.MkdirTemp("", "c10orph-")
	if err != nil {
		return pbt.Result{Discard: true}, nil
	}
	defer os.RemoveAll(base)
	sb, err := histeng.NewSandbox(base, os.Getenv("GROG_BIN"))
	if err != nil {
		return pbt.Result{Discard: true}, nil
	}
	w := histeng.WS{Files: map[string]string{"top.txt": "x"}, Workers: 2, Algo: "xxh3",
		Targets: []histeng.Target{{Pkg: "", Name: "slow", Inputs: []string{"top.txt"}, OutFiles: []string{"slow.out"}, SlowMs: 9000},
			{Pkg: "", Name: "quick", Inputs: []string{"top.txt"}, OutFiles: []string{"quick.out"}, Deps: nil}}}
	if err := sb.Sync(w); err != nil {
		return pbt.Result{Discard: true}, nil
	}
	pidTrace := filepath.Join(sb.ExtDir, "trace.pid")
	_ = os.WriteFile(pidTrace, nil, 0o644)
	// output goes to files: with a pipe, Wait would not return before the orphaned command has closed its copy of it
	nstart := 0
	start := func(patterns ...string) (*exec.Cmd, func() string, error) {
		cmd := exec.Command(sb.Bin, append([]string{"build"}, patterns...)...)
		cmd.Dir = sb.WS
		cmd.Env = append(sb.Env(), "TRACE_PID="+pidTrace)
		cmd.SysProcAttr = &syscall.SysProcAttr{Setpgid: true}
		nstart++
		logPath := filepath.Join(base, fmt.Sprintf("out-%d.log", nstart))
		f, err := os.Create(logPath)
		if err != nil {
			return nil, nil, err
		}
		cmd.Stdout, cmd.Stderr = f, f
		err = cmd.Start()
		f.Close()
		return cmd, func() string { b, _ := os.ReadFile(logPath); return string(b) }, err
	}
	holder, hout, err := start("//:slow")
	if err != nil {
		return pbt.Result{Discard: true}, nil
	}
	defer syscall.Kill(-holder.Process.Pid, syscall.SIGKILL) // the orphaned command, eventually
	// wait until the holder's command runs (so the lock is certainly taken), then a little longer, then kill grog alone
	deadline := time.Now().Add(20 * time.Second)
	for {
		data, _ := os.ReadFile(pidTrace)
		if strings.Contains(string(data), fmt.Sprintf("S %d //:slow", holder.Process.Pid)) {
			break
		}
		if time.Now().After(deadline) {
			_ = holder.Process.Kill()
			_ = holder.Wait()
			return pbt.Result{Discard: true}, nil // the machine is too busy to even start the command
		}
		time.Sleep(20 * time.Millisecond)
	}
	time.Sleep(time.Duration(c.KillMs) * time.Millisecond)
	_ = syscall.Kill(holder.Process.Pid, syscall.SIGKILL)
	_ = holder.Wait()
	killedAt := time.Now()
	next, nout, err := start("//:quick")
	if err != nil {
		return pbt.Result{Discard: true}, nil
	}
	done := make(chan error, 1)
	go func() { done <- next.Wait() }()
	select {
	case werr := <-done:
		took := time.Since(killedAt)
		if werr != nil {
			return res, pbt.Fail("build-after-dead-holder-failed", "the build started after the holder was killed failed: %v\n%s\n--- holder\n%s", werr, clipTail(nout(), 800), clipTail(hout(), 400))
		}
		res.NonTrivial = true
		_ = took
	case <-time.After(5 * time.Second):
		_ = syscall.Kill(-next.Process.Pid, syscall.SIGKILL)
		<-done
		return res, pbt.Fail("stale-lock-held-by-orphan", "the holder (pid %d) was killed %d ms after its command had started; its command keeps sleeping for about 9 s. A new `grog build //:quick` was still not finished 5 s later: the dead build's lock is not released while its child lives\n%s", holder.Process.Pid, c.KillMs, clipTail(nout(), 800))
	}
	return res, nil
}

func runBinary(c BCase) (pbt.Result, error) {
	if c.Orphan {
		return runOrphan(c)
	}
	res := pbt.Result{}
	base, err := os.MkdirTemp("", "c10bin-")
	if err != nil {
		return pbt.Result{Discard: true}, nil
	}
	defer os.RemoveAll(base)
	sb, err := histeng.NewSandbox(base, os.Getenv("GROG_BIN"))
	if err != nil {
		return pbt.Result{Discard: true}, nil
	}
	if err := sb.Sync(c.WS); err != nil {
		return pbt.Result{Discard: true}, nil
	}
	pidTrace := filepath.Join(sb.ExtDir, "trace.pid")
	_ = os.WriteFile(pidTrace, nil, 0o644)
	type outcome struct {
		pid    int
		exit   int
		out    string
		killed bool
		hung   bool
	}
	outs := make([]outcome, len(c.Procs))
	var wg sync.WaitGroup
	for i, p := range c.Procs {
		wg.Add(1)
		go func(i int, p BProc) {
			defer wg.Done()
			time.Sleep(time.Duration(p.DelayMs) * time.Millisecond)
			cmd := exec.Command(sb.Bin, "build", "//...")
			cmd.Dir = sb.WS
			cmd.Env = append(sb.Env(), "TRACE_PID="+pidTrace)
			cmd.SysProcAttr = &syscall.SysProcAttr{Setpgid: true}
			var out bytes.Buffer
			cmd.Stdout, cmd.Stderr = &out, &out
			if err := cmd.Start(); err != nil {
				outs[i] = outcome{exit: -1, out: err.Error()}
				return
			}
			pid := cmd.Process.Pid
			done := make(chan error, 1)
			go func() { done <- cmd.Wait() }()
			var sigTimer <-chan time.Time
			if p.Signal != "" {
				sigTimer = time.After(time.Duration(p.AfterMs) * time.Millisecond)
			}
			watchdog := time.After(120 * time.Second)
			o := outcome{pid: pid}
			for finished := false; !finished; {
				select {
				case err := <-done:
					if ee, ok := err.(*exec.ExitError); ok {
						o.exit = ee.ExitCode()
					} else if err != nil {
						o.exit = -1
					}
					finished = true
				case <-sigTimer:
					if p.Signal == "KILL" {
						_ = syscall.Kill(-pid, syscall.SIGKILL) // the whole group: no orphan command outlives its grog
					} else {
						_ = syscall.Kill(pid, syscall.SIGINT)
					}
					o.killed = true
					sigTimer = nil
				case <-watchdog:
					o.hung = true
					_ = syscall.Kill(-pid, syscall.SIGKILL)
					<-done
					finished = true
				}
			}
			_ = syscall.Kill(-pid, syscall.SIGKILL)
			o.out = out.String()
			outs[i] = o
		}(i, p)
	}
	wg.Wait()

	data, _ := os.ReadFile(pidTrace)
	lines := strings.Split(strings.TrimSpace(string(data)), "\n")
	describe := func() string {
		var b strings.Builder
		for i, o := range outs {
			fmt.Fprintf(&b, "\nprocess %d: pid=%d start+%dms signal=%q after %dms exit=%d hung=%v\n%s", i, o.pid, c.Procs[i].DelayMs, c.Procs[i].Signal, c.Procs[i].AfterMs, o.exit, o.hung, clipTail(o.out, 600))
		}
		fmt.Fprintf(&b, "\n--- trace (S/E pid label)\n%s", clipTail(string(data), 3000))
		return b.String()
	}
	// 1. two grog processes never run commands at the same time. Only commands that wrote both their S and their E line
	// count (a command killed together with its grog leaves no E): S_q < S_p < E_q in the append order of the trace
	// means that q's command was running when p's started - sound without any clock.
	type span struct {
		pid        int
		label      string
		start, end int
	}
	var spans []span
	open := map[string]int{} // "pid label" -> index into spans
	owners := map[int]bool{}
	for idx, ln := range lines {
		f := strings.Fields(ln)
		if len(f) < 3 {
			continue
		}
		pid, _ := strconv.Atoi(f[1])
		key := f[1] + " " + f[2]
		switch f[0] {
		case "S":
			owners[pid] = true
			open[key] = len(spans)
			spans = append(spans, span{pid: pid, label: f[2], start: idx, end: -1})
		case "E":
			if i, ok := open[key]; ok {
				spans[i].end = idx
				delete(open, key)
			}
		}
	}
	for _, p := range spans {
		for _, q := range spans {
			if q.pid != p.pid && q.end >= 0 && q.start < p.start && p.start < q.end {
				return res, pbt.Fail("two-builds-executing", "grog process %d started %s while grog process %d was running %s in the same workspace%s", p.pid, p.label, q.pid, q.label, describe())
			}
		}
	}
	// 2. every process that was not signalled finishes by itself and succeeds; a killed holder does not block the others
	contended := false
	for i, o := range outs {
		if o.hung {
			return res, pbt.Fail("build-never-finished", "process %d did not finish within 120 s%s", i, describe())
		}
		if !o.killed && o.exit != 0 {
			return res, pbt.Fail("waiting-build-failed", "process %d (never signalled) exited %d%s", i, o.exit, describe())
		}
		if strings.Contains(o.out, "lock") || strings.Contains(o.out, "Lock") {
			contended = true
		}
	}
	// 3. afterwards the workspace is usable: a further build succeeds and leaves exact outputs
	final := sb.Build(histeng.BuildOpts{Patterns: []string{"//..."}}, 120*time.Second)
	if final.TimedOut || final.Exit != 0 {
		return res, pbt.Fail("workspace-unusable-afterwards", "the build after the contention exited %d (timed out: %v)\n%s%s", final.Exit, final.TimedOut, clipTail(final.Out, 800), describe())
	}
	expect, _ := c.WS.Expect()
	var labels []string
	for _, t := range c.WS.Targets {
		labels = append(labels, t.Label())
	}
	if err := sb.CompareOutputs(expect, labels); err != nil {
		return res, pbt.Fail("outputs-wrong-after-contention", "%v%s", err, describe())
	}
	res.NonTrivial = len(owners) >= 1 && len(c.Procs) >= 2
	if contended {
		res.Classes = append(res.Classes, "waited-for-lock")
	}
	if len(owners) >= 2 {
		res.Classes = append(res.Classes, "two-processes-executed-commands")
	}
	for _, p := range c.Procs {
		if p.Signal != "" {
			res.Classes = append(res.Classes, "signal:"+p.Signal)
		}
	}
	return res, nil
}

func clipTail(s string, n int) string {
	if len(s) > n {
		return "…" + s[len(s)-n:]
	}
	return s
}

func TestBinary(t *testing.T) {
	if os.Getenv("GROG_BIN") == "" {
		t.Skip("GROG_BIN not set")
	}
	pbt.Main(t, pbt.Spec[BCase]{ID: "C10", Run: runBinary,
		Gen: func(t *rapid.T) BCase {
			if rapid.IntRange(0, 5).Draw(t, "orphan") == 0 {
				return BCase{Orphan: true, KillMs: rapid.SampledFrom([]int{0, 50, 300, 1000}).Draw(t, "kill_ms")}
			}
			w := histeng.GenWS(t, histeng.Profile{MaxTargets: 6, DirOutputs: true, Workers: []int{1, 2, 4}})
			for i := range w.Targets {
				w.Targets[i].SlowMs = rapid.SampledFrom([]int{60, 150, 300}).Draw(t, "slow")
			}
			c := BCase{WS: w}
			n := rapid.IntRange(2, 3).Draw(t, "nprocs")
			for i := 0; i < n; i++ {
				p := BProc{DelayMs: rapid.SampledFrom([]int{0, 0, 50, 200, 450, 700}).Draw(t, "delay")}
				if rapid.IntRange(0, 2).Draw(t, "signalled") == 0 {
					p.Signal = rapid.SampledFrom([]string{"KILL", "INT"}).Draw(t, "signal")
					p.AfterMs = rapid.IntRange(100, 1500).Draw(t, "after")
				}
				c.Procs = append(c.Procs, p)
			}
			return c
		}})
}
