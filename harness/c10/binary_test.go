package c10

// Part "binary": several real `grog build` processes in one workspace. The overlay parts own the schedule of the locker
// itself; this part observes the whole command (lock taken after loading, held across the execution, released on every
// exit path incl. signals) with sampled timing: commands are slow, processes start at generated offsets, one of them may
// be killed (SIGKILL to its process group) or interrupted (SIGINT) at a generated time. Every command reports the pid of
// the grog process that runs it, so the trace shows whether two live grog processes ever executed commands at the same
// time, and whether the survivors finish.

import (
	"bytes"
	"fmt"
	"os"
	"os/exec"
	"path/filepath"
	"strconv"
	"strings"
	"sync"
	"syscall"
	"testing"
	"time"

	"grog/verif/lib/histeng"
	"grog/verif/lib/pbt"

	"pgregory.net/rapid"
)

type BProc struct {
	DelayMs int    `json:"delay_ms"`
	Signal  string `json:"signal,omitempty"` // "" | KILL | INT
	AfterMs int    `json:"after_ms,omitempty"`
}

type BCase struct {
	WS    histeng.WS `json:"workspace"`
	Procs []BProc    `json:"procs"`
}

func runBinary(c BCase) (pbt.Result, error) {
	res := pbt.Result{}
	base, err := os.MkdirTemp("", "c10bin-")
	if err != nil {
		return pbt.Result{Discard: true}, nil
	}
	defer os.RemoveAll(base)
	sb, err := histeng.NewSandbox(base, os.Getenv("GROG_BIN"))
	if err != nil {
		return pbt.Result{Discard: true}, nil
	}
	if err := sb.Sync(c.WS); err != nil {
		return pbt.Result{Discard: true}, nil
	}
	pidTrace := filepath.Join(sb.ExtDir, "trace.pid")
	_ = os.WriteFile(pidTrace, nil, 0o644)
	type outcome struct {
		pid    int
		exit   int
		out    string
		killed bool
		hung   bool
	}
	outs := make([]outcome, len(c.Procs))
	var wg sync.WaitGroup
	for i, p := range c.Procs {
		wg.Add(1)
		go func(i int, p BProc) {
			defer wg.Done()
			time.Sleep(time.Duration(p.DelayMs) * time.Millisecond)
			cmd := exec.Command(sb.Bin, "build", "//...")
			cmd.Dir = sb.WS
			cmd.Env = append(sb.Env(), "TRACE_PID="+pidTrace)
			cmd.SysProcAttr = &syscall.SysProcAttr{Setpgid: true}
			var out bytes.Buffer
			cmd.Stdout, cmd.Stderr = &out, &out
			if err := cmd.Start(); err != nil {
				outs[i] = outcome{exit: -1, out: err.Error()}
				return
			}
			pid := cmd.Process.Pid
			done := make(chan error, 1)
			go func() { done <- cmd.Wait() }()
			var sigTimer <-chan time.Time
			if p.Signal != "" {
				sigTimer = time.After(time.Duration(p.AfterMs) * time.Millisecond)
			}
			watchdog := time.After(120 * time.Second)
			o := outcome{pid: pid}
			for finished := false; !finished; {
				select {
				case err := <-done:
					if ee, ok := err.(*exec.ExitError); ok {
						o.exit = ee.ExitCode()
					} else if err != nil {
						o.exit = -1
					}
					finished = true
				case <-sigTimer:
					if p.Signal == "KILL" {
						_ = syscall.Kill(-pid, syscall.SIGKILL) // the whole group: no orphan command outlives its grog
					} else {
						_ = syscall.Kill(pid, syscall.SIGINT)
					}
					o.killed = true
					sigTimer = nil
				case <-watchdog:
					o.hung = true
					_ = syscall.Kill(-pid, syscall.SIGKILL)
					<-done
					finished = true
				}
			}
			_ = syscall.Kill(-pid, syscall.SIGKILL)
			o.out = out.String()
			outs[i] = o
		}(i, p)
	}
	wg.Wait()

	data, _ := os.ReadFile(pidTrace)
	lines := strings.Split(strings.TrimSpace(string(data)), "\n")
	describe := func() string {
		var b strings.Builder
		for i, o := range outs {
			fmt.Fprintf(&b, "\nprocess %d: pid=%d start+%dms signal=%q after %dms exit=%d hung=%v\n%s", i, o.pid, c.Procs[i].DelayMs, c.Procs[i].Signal, c.Procs[i].AfterMs, o.exit, o.hung, clipTail(o.out, 600))
		}
		fmt.Fprintf(&b, "\n--- trace (S/E pid label)\n%s", clipTail(string(data), 3000))
		return b.String()
	}
	// 1. two grog processes never run commands at the same time. Only commands that wrote both their S and their E line
	// count (a command killed together with its grog leaves no E): S_q < S_p < E_q in the append order of the trace
	// means that q's command was running when p's started - sound without any clock.
	type span struct {
		pid        int
		label      string
		start, end int
	}
	var spans []span
	open := map[string]int{} // "pid label" -> index into spans
	owners := map[int]bool{}
	for idx, ln := range lines {
		f := strings.Fields(ln)
		if len(f) < 3 {
			continue
		}
		pid, _ := strconv.Atoi(f[1])
		key := f[1] + " " + f[2]
		switch f[0] {
		case "S":
			owners[pid] = true
			open[key] = len(spans)
			spans = append(spans, span{pid: pid, label: f[2], start: idx, end: -1})
		case "E":
			if i, ok := open[key]; ok {
				spans[i].end = idx
				delete(open, key)
			}
		}
	}
	for _, p := range spans {
		for _, q := range spans {
			if q.pid != p.pid && q.end >= 0 && q.start < p.start && p.start < q.end {
				return res, pbt.Fail("two-builds-executing", "grog process %d started %s while grog process %d was running %s in the same workspace%s", p.pid, p.label, q.pid, q.label, describe())
			}
		}
	}
	// 2. every process that was not signalled finishes by itself and succeeds; a killed holder does not block the others
	contended := false
	for i, o := range outs {
		if o.hung {
			return res, pbt.Fail("build-never-finished", "process %d did not finish within 120 s%s", i, describe())
		}
		if !o.killed && o.exit != 0 {
			return res, pbt.Fail("waiting-build-failed", "process %d (never signalled) exited %d%s", i, o.exit, describe())
		}
		if strings.Contains(o.out, "lock") || strings.Contains(o.out, "Lock") {
			contended = true
		}
	}
	// 3. afterwards the workspace is usable: a further build succeeds and leaves exact outputs
	final := sb.Build(histeng.BuildOpts{Patterns: []string{"//..."}}, 120*time.Second)
	if final.TimedOut || final.Exit != 0 {
		return res, pbt.Fail("workspace-unusable-afterwards", "the build after the contention exited %d (timed out: %v)\n%s%s", final.Exit, final.TimedOut, clipTail(final.Out, 800), describe())
	}
	expect, _ := c.WS.Expect()
	var labels []string
	for _, t := range c.WS.Targets {
		labels = append(labels, t.Label())
	}
	if err := sb.CompareOutputs(expect, labels); err != nil {
		return res, pbt.Fail("outputs-wrong-after-contention", "%v%s", err, describe())
	}
	res.NonTrivial = len(owners) >= 1 && len(c.Procs) >= 2
	if contended {
		res.Classes = append(res.Classes, "waited-for-lock")
	}
	if len(owners) >= 2 {
		res.Classes = append(res.Classes, "two-processes-executed-commands")
	}
	for _, p := range c.Procs {
		if p.Signal != "" {
			res.Classes = append(res.Classes, "signal:"+p.Signal)
		}
	}
	return res, nil
}

func clipTail(s string, n int) string {
	if len(s) > n {
		return "…" + s[len(s)-n:]
	}
	return s
}

func TestBinary(t *testing.T) {
	if os.Getenv("GROG_BIN") == "" {
		t.Skip("GROG_BIN not set")
	}
	pbt.Main(t, pbt.Spec[BCase]{ID: "C10", Run: runBinary,
		Gen: func(t *rapid.T) BCase {
			w := histeng.GenWS(t, histeng.Profile{MaxTargets: 6, DirOutputs: true, Workers: []int{1, 2, 4}})
			for i := range w.Targets {
				w.Targets[i].SlowMs = rapid.SampledFrom([]int{60, 150, 300}).Draw(t, "slow")
			}
			c := BCase{WS: w}
			n := rapid.IntRange(2, 3).Draw(t, "nprocs")
			for i := 0; i < n; i++ {
				p := BProc{DelayMs: rapid.SampledFrom([]int{0, 0, 50, 200, 450, 700}).Draw(t, "delay")}
				if rapid.IntRange(0, 2).Draw(t, "signalled") == 0 {
					p.Signal = rapid.SampledFrom([]string{"KILL", "INT"}).Draw(t, "signal")
					p.AfterMs = rapid.IntRange(100, 1500).Draw(t, "after")
				}
				c.Procs = append(c.Procs, p)
			}
			return c
		}})
}
