package c12

// Part "binary": the same generated graphs and invocations through the real binary, run from the generated
// current package with a cold cache: the set of commands that ran (S lines) must be exactly the selected
// targets of the reference selector; a platform error or an empty selection must fail before anything runs.

import (
	"fmt"
	"os"
	"path/filepath"
	"sort"
	"strings"
	"testing"
	"time"

	"grog/verif/lib/histeng"
	"grog/verif/lib/pbt"
	"grog/verif/lib/wsgen"

	"pgregory.net/rapid"
)

func TestBinary(t *testing.T) {
	bin := os.Getenv("GROG_BIN")
	if bin == "" {
		t.Skip("GROG_BIN not set")
	}
	pbt.Main(t, pbt.Spec[Case]{ID: "C12", Gen: gen,
		Run: func(c Case) (pbt.Result, error) {
			res := pbt.Result{}
			base, err := os.MkdirTemp("", "c12bin-")
			if err != nil {
				return pbt.Result{Discard: true}, nil
			}
			defer os.RemoveAll(base)
			sb, err := histeng.NewSandbox(base, bin)
			if err != nil {
				return pbt.Result{Discard: true}, nil
			}
			g := c.Graph
			g.Targets = append([]wsgen.Target{}, g.Targets...)
			for i := range g.Targets {
				g.Targets[i].Command = `printf 'S %s\n' "$GROG_TARGET" >> "$TRACE"`
			}
			files := g.BuildFiles()
			files["grog.toml"] = "num_workers = 3\n"
			if err := wsgen.WriteTree(sb.WS, files); err != nil {
				return pbt.Result{Discard: true}, nil
			}
			_ = os.MkdirAll(filepath.Join(sb.WS, c.Cur), 0o755)
			args := []string{"build"}
			if c.Test {
				args = []string{"test"}
			}
			for _, tg := range c.Tags {
				args = append(args, "--tag="+tg)
			}
			for _, tg := range c.ExcludeTags {
				args = append(args, "--exclude-tag="+tg)
			}
			if c.AllPlatforms {
				args = append(args, "--all-platforms")
			} else {
				args = append(args, "--platform="+c.OS+"/"+c.Arch)
			}
			args = append(args, c.Patterns...)
			r := sb.Grog(c.Cur, 120*time.Second, args...)
			tail := fmt.Sprintf("\ngrog %v (cwd %q) exit=%d trace=%v\n%s", args, c.Cur, r.Exit, r.Lines, r.Out)
			if r.TimedOut || strings.Contains(r.Out, "panic:") || strings.Contains(r.Out, "fatal error:") {
				return res, pbt.Fail("C04:internal-crash", "crash or hang%s", tail)
			}
			byLabel := c.Graph.TargetByLabel()
			strict, loose := reference(c, false), reference(c, true)
			targetsOf := func(r refResult) []string {
				var ts []string
				for l := range r.selected {
					if byLabel[l] != nil {
						ts = append(ts, l)
					}
				}
				sort.Strings(ts)
				return ts
			}
			got := histeng.SortedKeysInt(r.Started)
			accept := func(ref refResult) bool {
				want := targetsOf(ref)
				if ref.err || len(want) == 0 {
					return r.Exit != 0 && len(got) == 0
				}
				return r.Exit == 0 && fmt.Sprint(got) == fmt.Sprint(want)
			}
			ok := accept(loose)
			if !ok && (strict.err != loose.err || fmt.Sprint(targetsOf(strict)) != fmt.Sprint(targetsOf(loose))) {
				// ambiguous alias seeds: accept closure(strict seeds + ambiguous aliases whose actual ran)
				seeds := append([]string{}, strict.seeds...)
				for _, a := range strict.ambiguous {
					if r.Started[c.Graph.Resolve(a)] > 0 {
						seeds = append(seeds, a)
					}
				}
				cl, cerr := closureErr(c, seeds)
				ok = accept(refResult{selected: cl, err: cerr}) || accept(strict)
			}
			if !ok {
				sig := "executed-set-differs"
				switch {
				case loose.err && r.Exit == 0:
					sig = "platform-mismatched-dependency-accepted"
				case len(got) > len(targetsOf(loose)):
					sig = "over-selection"
				case len(got) < len(targetsOf(loose)) && r.Exit == 0:
					sig = "under-selection"
				}
				return res, pbt.Fail(sig, "executed %v, reference selects %v (error expected: %v)%s", got, targetsOf(loose), loose.err, tail)
			}
			res.NonTrivial = len(got) > 0 && (len(c.Patterns) > 0 || len(c.Tags)+len(c.ExcludeTags) > 0)
			if c.Cur != "" {
				res.Classes = append(res.Classes, "from-subpackage")
			}
			return res, nil
		}})
}

var _ = rapid.Just[int]
