// C12 — selection is the pattern matches plus their dependency closure, nothing else.
//
// In-process on selection.New(...).SelectTargetsForBuild over generated graphs
// (aliases, test targets, tags, platforms), pattern strings parsed by the real
// parser relative to a generated current package, tag / exclude-tag sets,
// build vs test, host platform and --all-platforms. Oracle: a reference
// selector written from the property's sentence and docs (labels.md for the
// patterns, target-aliases.mdx: "building an alias builds the aliased target").
package c12

import (
	"fmt"
	"sort"
	"strings"
	"testing"

	"grog/internal/analysis"
	"grog/internal/config"
	"grog/internal/label"
	"grog/internal/selection"
	"grog/verif/lib/pbt"
	"grog/verif/lib/refmodel"
	"grog/verif/lib/wsgen"

	"pgregory.net/rapid"
)

type Case struct {
	Graph        wsgen.Graph `json:"graph"`
	Cur          string      `json:"current_package"`
	Patterns     []string    `json:"patterns"`
	Tags         []string    `json:"tags"`
	ExcludeTags  []string    `json:"exclude_tags"`
	Test         bool        `json:"test_command"`
	OS           string      `json:"os"`
	Arch         string      `json:"arch"`
	AllPlatforms bool        `json:"all_platforms"`
}

type refResult struct {
	selected  map[string]bool // labels of selected nodes (targets and aliases)
	skipped   int
	err       bool
	seeds     []string
	ambiguous []string // aliases matched by a pattern whose aliased target fails the filters
}

func contains(xs []string, x string) bool {
	for _, y := range xs {
		if x == y {
			return true
		}
	}
	return false
}

func intersects(a, b []string) bool {
	for _, x := range a {
		if contains(b, x) {
			return true
		}
	}
	return false
}

// reference computes the selection. aliasSeeds says whether an alias matched by
// a pattern seeds its actual even when the actual fails the target filters
// (the documented "building an alias builds its actual"); with false, such an
// alias only counts when its resolved target passes the filters itself.
func reference(c Case, aliasSeedsAlways bool) refResult {
	var pats []refmodel.RefPattern
	matchAll := len(c.Patterns) == 0
	for _, p := range c.Patterns {
		rp, ok := refmodel.RefParsePattern(c.Cur, p)
		if !ok {
			panic("generator produced a pattern outside the documented grammar: " + p)
		}
		pats = append(pats, rp)
	}
	patMatch := func(l string) bool {
		if matchAll {
			return true
		}
		for _, p := range pats {
			if p.Matches(wsgen.TL(l)) {
				return true
			}
		}
		return false
	}
	platformOK := func(t *wsgen.Target) bool {
		return c.AllPlatforms || len(t.Platforms) == 0 || contains(t.Platforms, c.OS+"/"+c.Arch)
	}
	passes := func(t *wsgen.Target) bool {
		if t.IsTest() != c.Test {
			return false
		}
		if len(c.Tags) > 0 && !intersects(c.Tags, t.Tags) {
			return false
		}
		return !intersects(c.ExcludeTags, t.Tags)
	}
	byLabel := c.Graph.TargetByLabel()
	res := refResult{selected: map[string]bool{}}
	var seeds []string
	for i := range c.Graph.Targets {
		t := &c.Graph.Targets[i]
		if passes(t) && patMatch(t.Label()) {
			if !platformOK(t) {
				res.skipped++
				continue
			}
			seeds = append(seeds, t.Label())
		}
	}
	for _, a := range c.Graph.Aliases {
		if !patMatch(a.Label()) {
			continue
		}
		if t := byLabel[c.Graph.Resolve(a.Label())]; t != nil && passes(t) && platformOK(t) {
			seeds = append(seeds, a.Label())
		} else {
			res.ambiguous = append(res.ambiguous, a.Label())
			if aliasSeedsAlways {
				seeds = append(seeds, a.Label())
			}
		}
	}
	closure := c.Graph.Closure(seeds)
	seedSet := map[string]bool{}
	for _, s := range seeds {
		seedSet[s] = true
	}
	for l := range closure {
		if t := byLabel[l]; t != nil && !platformOK(t) {
			// a platform-incompatible node can only get here as a dependency
			res.err = true
		}
	}
	res.selected = closure
	res.seeds = seeds
	return res
}

// closureErr reports whether the closure of seeds contains a platform-incompatible target.
func closureErr(c Case, seeds []string) (map[string]bool, bool) {
	byLabel := c.Graph.TargetByLabel()
	cl := c.Graph.Closure(seeds)
	for l := range cl {
		if t := byLabel[l]; t != nil && !(c.AllPlatforms || len(t.Platforms) == 0 || contains(t.Platforms, c.OS+"/"+c.Arch)) {
			return cl, true
		}
	}
	return cl, false
}

func sortedKeys(m map[string]bool) []string {
	var ks []string
	for k, v := range m {
		if v {
			ks = append(ks, k)
		}
	}
	sort.Strings(ks)
	return ks
}

func run(c Case) (pbt.Result, error) {
	res := pbt.Result{}
	nodes, err := c.Graph.Nodes()
	if err != nil {
		return pbt.Result{Discard: true}, nil
	}
	config.Global = config.WorkspaceConfig{OS: c.OS, Arch: c.Arch, AllPlatforms: c.AllPlatforms, WorkspaceRoot: "/nonexistent-ws"}
	graph, err := analysis.BuildGraph(nodes)
	if err != nil {
		return res, pbt.Fail("valid-graph-rejected", "BuildGraph: %v", err)
	}
	pats, err := label.ParsePatternsOrMatchAll(c.Cur, c.Patterns)
	if err != nil {
		return res, pbt.Fail("documented-pattern-rejected", "patterns %q: %v", c.Patterns, err)
	}
	typ := selection.NonTestOnly
	if c.Test {
		typ = selection.TestOnly
	}
	selCount, skipped, selErr := selection.New(pats, c.Tags, c.ExcludeTags, typ).SelectTargetsForBuild(graph)
	got := map[string]bool{}
	gotTargets := 0
	byLabel := c.Graph.TargetByLabel()
	for l, n := range graph.GetNodes() {
		if n.GetIsSelected() {
			got[l.String()] = true
			if byLabel[l.String()] != nil {
				gotTargets++
			}
		}
	}

	strict := reference(c, false)
	loose := reference(c, true)
	ambiguous := strict.err != loose.err || fmt.Sprint(sortedKeys(strict.selected)) != fmt.Sprint(sortedKeys(loose.selected))
	if ambiguous {
		res.Classes = append(res.Classes, "alias-seed-fails-target-filters(either-way-accepted)")
	}
	matches := func(r refResult) (bool, string) {
		if r.err != (selErr != nil) {
			return false, fmt.Sprintf("error expected=%v got=%v", r.err, selErr)
		}
		if r.err {
			return true, ""
		}
		if want := sortedKeys(r.selected); fmt.Sprint(want) != fmt.Sprint(sortedKeys(got)) {
			return false, fmt.Sprintf("selected set differs:\n want %v\n got  %v", want, sortedKeys(got))
		}
		wantTargets := 0
		for l := range r.selected {
			if byLabel[l] != nil {
				wantTargets++
			}
		}
		if selCount != wantTargets || gotTargets != wantTargets {
			return false, fmt.Sprintf("selected target count: reported %d, flagged %d, want %d", selCount, gotTargets, wantTargets)
		}
		if skipped != r.skipped {
			return false, fmt.Sprintf("platform-skipped count: got %d want %d", skipped, r.skipped)
		}
		return true, ""
	}
	okLoose, why := matches(loose)
	okStrict := false
	if ambiguous && !okLoose {
		// Accept exactly the outcomes that treat some subset A' of the ambiguous
		// aliases as seeds: S == closure(strict seeds + A') with A' = S ∩ ambiguous.
		switch {
		case selErr != nil:
			okStrict = loose.err // an error is right if some choice of A' runs into a platform mismatch
		default:
			seeds := append([]string{}, strict.seeds...)
			for _, a := range strict.ambiguous {
				if got[a] {
					seeds = append(seeds, a)
				}
			}
			cl, cerr := closureErr(c, seeds)
			alt := refResult{selected: cl, err: cerr, skipped: strict.skipped}
			okStrict, _ = matches(alt)
		}
	}
	if !okLoose && !okStrict {
		sig := "selection-differs"
		switch {
		case loose.err && selErr == nil:
			sig = "platform-mismatched-dependency-accepted"
		case !loose.err && selErr != nil:
			sig = "spurious-selection-error"
		case len(got) > len(loose.selected):
			sig = "over-selection"
		case len(got) < len(loose.selected):
			sig = "under-selection"
		}
		return res, pbt.Fail(sig, "%s\npatterns=%q cur=%q tags=%v exclude=%v test=%v platform=%s/%s all=%v", why, c.Patterns, c.Cur, c.Tags, c.ExcludeTags, c.Test, c.OS, c.Arch, c.AllPlatforms)
	}

	// classification
	seedsOnly := 0
	for _, t := range c.Graph.Targets {
		if loose.selected[t.Label()] {
			seedsOnly++
		}
	}
	closureViaAlias := false
	for _, a := range c.Graph.Aliases {
		if loose.selected[a.Label()] {
			closureViaAlias = true
		}
	}
	filterRemoves := len(c.Tags) > 0 || len(c.ExcludeTags) > 0
	if loose.err {
		res.Classes = append(res.Classes, "platform-error")
	}
	if closureViaAlias {
		res.Classes = append(res.Classes, "alias-selected")
	}
	if loose.skipped > 0 {
		res.Classes = append(res.Classes, "platform-skipped")
	}
	if len(loose.selected) == 0 {
		res.Classes = append(res.Classes, "empty-selection")
	}
	res.NonTrivial = loose.err || (closureViaAlias && len(loose.selected) > 1) || (filterRemoves && len(loose.selected) > 0) || loose.skipped > 0
	return res, nil
}

func genPattern(t *rapid.T, g wsgen.Graph, cur string) string {
	pkgs := append([]string{}, wsgen.DefaultPkgs...)
	pkg := rapid.SampledFrom(pkgs).Draw(t, "ppkg")
	// prefer names that exist
	var names []string
	for _, tg := range g.Targets {
		names = append(names, tg.Name)
	}
	for _, a := range g.Aliases {
		names = append(names, a.Name)
	}
	names = append(names, "nosuch")
	name := rapid.SampledFrom(names).Draw(t, "pname")
	switch rapid.IntRange(0, 9).Draw(t, "pkind") {
	case 0:
		return "//..."
	case 1:
		if pkg == "" {
			return "//..."
		}
		return "//" + pkg + "/..."
	case 2:
		return "//" + pkg + ":all"
	case 3:
		return "//" + pkg + ":..."
	case 4:
		if pkg == "" {
			return "//...:" + name
		}
		return "//" + pkg + "/...:" + name
	case 5:
		return ":" + name
	case 6:
		return ":all"
	case 7:
		if pkg == "" {
			return "//:" + name
		}
		return "//" + pkg // shorthand
	default:
		// an existing label
		if rapid.Bool().Draw(t, "aliaslabel") && len(g.Aliases) > 0 {
			return g.Aliases[rapid.IntRange(0, len(g.Aliases)-1).Draw(t, "ai")].Label()
		}
		return g.Targets[rapid.IntRange(0, len(g.Targets)-1).Draw(t, "ti")].Label()
	}
}

func gen(t *rapid.T) Case {
	g := wsgen.GenGraph(t, wsgen.GraphOpts{MaxTargets: 9, Tests: true, Tags: []string{"x", "y", "no-cache"}, Platforms: true, AliasPct: 35, FreeAliases: 3})
	c := Case{Graph: g, Cur: rapid.SampledFrom([]string{"", "a", "a/b", "ab", "c/d", "c"}).Draw(t, "cur")}
	np := rapid.IntRange(0, 3).Draw(t, "npatterns")
	for i := 0; i < np; i++ {
		c.Patterns = append(c.Patterns, genPattern(t, g, c.Cur))
	}
	switch rapid.IntRange(0, 6).Draw(t, "tagmode") {
	case 5: // several exclude tags: a target carrying ANY of them is filtered out
		c.ExcludeTags = []string{"x", "y"}
	case 6:
		c.Tags, c.ExcludeTags = []string{"x"}, []string{"no-cache", "y"}
	case 0:
		c.Tags = []string{"x"}
	case 1:
		c.ExcludeTags = []string{"y"}
	case 2:
		c.Tags, c.ExcludeTags = []string{"x", "no-cache"}, []string{"y"}
	}
	c.Test = rapid.IntRange(0, 3).Draw(t, "test") == 0
	if rapid.Bool().Draw(t, "host") {
		c.OS, c.Arch = "linux", "amd64"
	} else {
		c.OS, c.Arch = "darwin", "arm64"
	}
	c.AllPlatforms = rapid.IntRange(0, 5).Draw(t, "allplatforms") == 0
	return c
}

func TestSelection(t *testing.T) {
	pbt.Main(t, pbt.Spec[Case]{ID: "C12", Gen: gen, Run: run})
}

var _ = strings.TrimSpace
