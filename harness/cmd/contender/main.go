//go:build verifoverlay

// contender is one grog process as far as the workspace lock is concerned: it
// takes the lock with the real locker (built with the yield-point overlay),
// holds it until the controller lets it continue, releases it and exits.
package main

import (
	"context"
	"os"
	"runtime"
	"time"

	"grog/internal/config"
	"grog/internal/locking"
)

func main() {
	config.Global.Root = os.Getenv("CONTENDER_ROOT")
	config.Global.WorkspaceRoot = os.Getenv("CONTENDER_WORKSPACE")
	locker := locking.NewWorkspaceLocker()
	locking.VerifYield("start", "")
	ctx, cancel := context.WithCancel(context.Background())
	locking.VerifCancel = cancel
	if err := locker.Lock(ctx); err != nil {
		if ctx.Err() != nil {
			locking.VerifYield("cancelled", err.Error())
			os.Exit(0)
		}
		locking.VerifYield("lockerr", err.Error())
		os.Exit(3)
	}
	// a build allocates for as long as it holds the lock: whatever the lock rests on has to survive garbage
	// collections (and the finalizers they trigger) without the locker being touched
	for i := 0; i < 3; i++ {
		_ = make([]byte, 1<<20)
		runtime.GC()
		time.Sleep(2 * time.Millisecond)
	}
	locking.VerifYield("held", "") // inside the critical section until the controller answers
	if err := locker.Unlock(); err != nil {
		locking.VerifYield("unlockerr", err.Error())
		os.Exit(4)
	}
	locking.VerifYield("released", "")
}
