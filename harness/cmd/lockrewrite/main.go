// lockrewrite rewrites a Go source file so that every file-system call, write,
// close, liveness probe and timer of a fixed table goes through a same-signature
// shim (verifXxx) that announces the pending operation to a controller and waits
// for permission. Calls it does not know are left alone: fewer yield points
// explore fewer interleavings but never fabricate one.
//
//	lockrewrite <in.go> <out.go>
package main

import (
	"fmt"
	"go/ast"
	"go/format"
	"go/parser"
	"go/token"
	"os"
)

var pkgFuncs = map[string]map[string]string{
	"os": {"OpenFile": "verifOpenFile", "ReadFile": "verifReadFile", "Remove": "verifRemove", "WriteFile": "verifWriteFile", "Rename": "verifRename",
		"Create": "verifCreate", "Stat": "verifStat", "Link": "verifLink", "Open": "verifOpen", "Truncate": "verifTruncate"},
	"time":    {"After": "verifAfter", "Sleep": "verifSleep"},
	"syscall": {"Flock": "verifFlock", "Kill": "verifKill"},
}

// method calls rewritten to shim(receiver, args...)
var methods = map[string]string{"Write": "verifWrite", "WriteString": "verifWriteString", "Close": "verifClose", "Signal": "verifSignal", "Sync": "verifSync", "Truncate": "verifFTruncate"}

func main() {
	if len(os.Args) != 3 {
		fmt.Fprintln(os.Stderr, "usage: lockrewrite in.go out.go")
		os.Exit(2)
	}
	fset := token.NewFileSet()
	file, err := parser.ParseFile(fset, os.Args[1], nil, parser.ParseComments)
	if err != nil {
		fmt.Fprintln(os.Stderr, err)
		os.Exit(2)
	}
	count := 0
	ast.Inspect(file, func(n ast.Node) bool {
		call, ok := n.(*ast.CallExpr)
		if !ok {
			return true
		}
		sel, ok := call.Fun.(*ast.SelectorExpr)
		if !ok {
			return true
		}
		if id, ok := sel.X.(*ast.Ident); ok && id.Obj == nil {
			if shim, ok := pkgFuncs[id.Name][sel.Sel.Name]; ok {
				call.Fun = ast.NewIdent(shim)
				count++
				return true
			}
		}
		if shim, ok := methods[sel.Sel.Name]; ok {
			// only plain receivers (identifiers / field selectors), never package-qualified functions
			if id, isIdent := sel.X.(*ast.Ident); isIdent && id.Obj == nil {
				return true // package-level function such as bytes.Write? leave alone
			}
			call.Args = append([]ast.Expr{sel.X}, call.Args...)
			call.Fun = ast.NewIdent(shim)
			count++
		}
		return true
	})
	out, err := os.Create(os.Args[2])
	if err != nil {
		fmt.Fprintln(os.Stderr, err)
		os.Exit(2)
	}
	defer out.Close()
	if err := format.Node(out, fset, file); err != nil {
		fmt.Fprintln(os.Stderr, err)
		os.Exit(2)
	}
	// keep imports used even if every reference was rewritten away
	keep := map[string]string{"os": "os.Getpid", "time": "time.Now", "syscall": "syscall.Getpid"}
	for _, imp := range file.Imports {
		name := imp.Path.Value[1 : len(imp.Path.Value)-1]
		if ref, ok := keep[name]; ok && imp.Name == nil {
			fmt.Fprintf(out, "\nvar _ = %s\n", ref)
		}
	}
	fmt.Printf("%d yield points\n", count)
}
