// C18 — interrupts stop the build promptly and leave a recoverable state.
package c18

import (
	"fmt"
	"os"
	"os/exec"
	"sort"
	"strings"
	"syscall"
	"testing"
	"time"

	"grog/verif/lib/histeng"
	"grog/verif/lib/pbt"

	"pgregory.net/rapid"
)

type Case struct {
	WS       histeng.WS `json:"workspace"`
	Signal   string     `json:"signal"`    // INT | TERM
	Group    bool       `json:"to_group"`  // deliver to the whole process group (like a terminal does) or to grog only
	OffsetMs int        `json:"offset_ms"` // after process start
	Warm     bool       `json:"warm_cache"`
	TrapTerm bool       `json:"commands_trap_term"`
	FailFast bool       `json:"fail_fast,omitempty"` // the interrupted build runs with --fail-fast (nothing fails: the interrupt is not a failure)
}

const exitWithin = 15 * time.Second

func interruptedArgs(c Case) []string {
	if c.FailFast {
		return []string{"build", "--fail-fast", "//..."}
	}
	return []string{"build", "//..."}
}

func run(c Case) (pbt.Result, error) {
	res := pbt.Result{}
	bin := os.Getenv("GROG_BIN")
	base, err := os.MkdirTemp("", "c18-")
	if err != nil {
		return pbt.Result{Discard: true}, nil
	}
	defer os.RemoveAll(base)
	sb, err := histeng.NewSandbox(base, bin)
	if err != nil {
		return pbt.Result{Discard: true}, nil
	}
	w := c.WS.Clone()
	if c.TrapTerm {
		sb.ExtraEnv = append(sb.ExtraEnv, "VERIF_TRAP_TERM=1")
	}
	if err := sb.Sync(w); err != nil {
		return pbt.Result{Discard: true}, nil
	}
	model := histeng.NewModel()
	all := histeng.BuildOpts{Patterns: []string{"//..."}}
	if c.Warm {
		// a first complete build, then a change of every target's command, so that the interrupted build starts from a populated cache
		r := sb.Build(all, 180*time.Second)
		if r.Exit != 0 {
			return res, pbt.Fail("C01:valid-build-failed", "warm-up build failed\n%s", r.Out)
		}
		for i := range w.Targets {
			w.Targets[i].Nonce++
		}
		_ = sb.Sync(w)
	}
	sig := syscall.SIGINT
	if c.Signal == "TERM" {
		sig = syscall.SIGTERM
	}
	var signalled time.Time
	sb.NoReap = true
	r := sb.GrogWith("", 120*time.Second, func(cmd *exec.Cmd) {
		time.Sleep(time.Duration(c.OffsetMs) * time.Millisecond)
		signalled = time.Now()
		if c.Group {
			_ = syscall.Kill(-cmd.Process.Pid, sig)
		} else {
			_ = cmd.Process.Signal(sig)
		}
	}, interruptedArgs(c)...)
	exited := time.Now()
	sb.NoReap = false
	defer func() { _ = syscall.Kill(-r.Pgid, syscall.SIGKILL) }()
	tail := func() string {
		out := r.Out
		if len(out) > 1800 {
			out = "…" + out[len(out)-1800:]
		}
		return fmt.Sprintf("\nsignal=%s group=%v offset=%dms exit=%d after-signal=%v\ntrace=%v\n--- grog output\n%s", c.Signal, c.Group, c.OffsetMs, r.Exit, exited.Sub(signalled).Round(time.Millisecond), r.Lines, out)
	}
	if r.TimedOut || exited.Sub(signalled) > exitWithin {
		return res, pbt.Fail("C18:did-not-exit-promptly", "grog was still running %v after the signal%s", exited.Sub(signalled).Round(time.Millisecond), tail())
	}
	if strings.Contains(r.Out, "panic:") || strings.Contains(r.Out, "fatal error:") {
		return res, pbt.Fail("C04:internal-crash", "grog crashed on interrupt%s", tail())
	}
	selected := histeng.Select(w, []string{"//..."})
	unfinished := []string{}
	running := 0
	for _, l := range selected {
		if !r.Ended[l] {
			unfinished = append(unfinished, l)
			if r.Started[l] > 0 {
				running++
			}
		}
	}
	if running > 0 {
		res.NonTrivial = true
		res.Classes = append(res.Classes, fmt.Sprintf("interrupted-while-running:%d", min(running, 3)))
	}
	finishedNormally := strings.Contains(r.Out, "completed successfully")
	switch {
	case len(unfinished) == 0:
		res.Classes = append(res.Classes, "signal-after-last-target")
	case len(r.Started) == 0:
		res.Classes = append(res.Classes, "signal-before-first-target")
	}
	if len(unfinished) > 0 && r.Exit == 0 {
		return res, pbt.Fail("C18:exit-zero-after-interrupt", "targets %v never finished, yet grog exited 0 (reported success: %v)%s", unfinished, finishedNormally, tail())
	}
	// nothing keeps running or starts after grog has gone
	time.Sleep(1200 * time.Millisecond)
	late := sb.Grog("", 10*time.Second, "version") // cheap way to pick up new trace lines
	if len(late.Lines) > 0 {
		return res, pbt.Fail("C18:activity-after-exit", "trace lines appeared after grog had exited: %v (a target shell survived the interrupt)%s", late.Lines, tail())
	}
	// follow-up build: acquires the lock, re-runs every interrupted target, and produces exact outputs
	pred := model.Predict(w, all)
	_ = pred
	expect, _ := w.Expect()
	f := sb.Build(all, 180*time.Second)
	ftail := func() string {
		out := f.Out
		if len(out) > 1500 {
			out = "…" + out[len(out)-1500:]
		}
		return fmt.Sprintf("%s\n--- follow-up build: exit=%d wall=%v trace=%v\n%s", tail(), f.Exit, f.Wall.Round(time.Millisecond), f.Lines, out)
	}
	if f.TimedOut {
		return res, pbt.Fail("C18:follow-up-build-blocked", "the follow-up build did not finish within 180 s (stale lock?)%s", ftail())
	}
	if f.Exit != 0 {
		return res, pbt.Fail("C18:follow-up-build-failed", "the follow-up build exits %d%s", f.Exit, ftail())
	}
	for _, l := range unfinished {
		if f.Started[l] == 0 {
			return res, pbt.Fail("C18:interrupted-target-was-cached", "%s never finished in the interrupted build, but the follow-up build did not execute it (a result was recorded for an interrupted target)%s", l, ftail())
		}
	}
	if err := sb.CompareOutputs(expect, selected); err != nil {
		return res, pbt.Fail("C01:stale-or-wrong-output-after-build", "after interrupt + follow-up build: %v%s", err, ftail())
	}
	sort.Strings(res.Classes)
	return res, nil
}

func gen(t *rapid.T) Case {
	w := histeng.GenWS(t, histeng.Profile{MaxTargets: 7, DirOutputs: true, Workers: []int{1, 2, 4}})
	for i := range w.Targets {
		w.Targets[i].SlowMs = rapid.SampledFrom([]int{0, 150, 400, 900}).Draw(t, "slow")
	}
	c := Case{WS: w, Signal: rapid.SampledFrom([]string{"INT", "TERM"}).Draw(t, "signal"), Group: rapid.Bool().Draw(t, "group"),
		Warm: rapid.IntRange(0, 3).Draw(t, "warm") == 0, TrapTerm: rapid.IntRange(0, 2).Draw(t, "trapterm") == 0, FailFast: rapid.IntRange(0, 2).Draw(t, "failfast") == 0}
	// offsets stratified over start-up, execution and the tail of the build
	c.OffsetMs = rapid.SampledFrom([]int{0, 5, 20, 60, 120, 250, 400, 600, 900, 1300, 1800, 2500, 3500}).Draw(t, "offset") + rapid.IntRange(0, 90).Draw(t, "jitter")
	return c
}

func TestInterrupts(t *testing.T) {
	if os.Getenv("GROG_BIN") == "" {
		t.Skip("GROG_BIN not set")
	}
	pbt.Main(t, pbt.Spec[Case]{ID: "C18", Gen: gen, Run: run})
}
