// Package histeng is the build-history engine: an abstract workspace (pure
// data), a command template whose output is a deterministic function of the
// declared inputs and the direct dependencies' outputs, an interpreter that
// computes the expected outputs from the abstract state alone (the independent
// oracle), a three-valued reference model of what must / must not execute, and
// a runner that materialises the workspace and drives the real grog binary.
package histeng

import (
	"crypto/sha256"
	"encoding/hex"
	"encoding/json"
	"fmt"
	"path"
	"path/filepath"
	"sort"
	"strings"
)

type Check struct {
	Marker    string `json:"marker"`             // external condition: file $EXT/marker.<Marker>
	Expected  string `json:"expected,omitempty"` // "" = check passes iff the marker exists; else marker content must equal it
	Establish bool   `json:"establish"`          // the target's command creates the marker (with content Expected or "ok")
}

type Target struct {
	Pkg         string            `json:"pkg"`
	Name        string            `json:"name"`
	Deps        []string          `json:"deps,omitempty"` // declared labels (targets or aliases)
	Inputs      []string          `json:"inputs,omitempty"`
	Excludes    []string          `json:"excludes,omitempty"`
	OutFiles    []string          `json:"out_files,omitempty"`
	OutDirs     []string          `json:"out_dirs,omitempty"`
	Bin         string            `json:"bin,omitempty"`
	// InPlace: file outputs that exist already are rewritten in place instead of being removed and created anew
	InPlace bool `json:"in_place,omitempty"`
	// NoCommand: a grouping target (dependencies only): grog runs nothing for it, so it never shows in the trace
	NoCommand bool `json:"no_command,omitempty"`
	Nonce       int               `json:"nonce"`
	Tags        []string          `json:"tags,omitempty"`
	Fingerprint map[string]string `json:"fingerprint,omitempty"`
	Timeout     string            `json:"timeout,omitempty"`
	Checks      []Check           `json:"checks,omitempty"`
	ExecBit     bool              `json:"exec_bit,omitempty"` // first file output is made executable by the command
	SlowMs      int               `json:"slow_ms,omitempty"`  // the command sleeps this long (between S and E)
	Gate        string            `json:"gate,omitempty"`     // wait (bounded) until this label's S line is in the trace
	PadKB       int               `json:"pad_kb,omitempty"`   // the first file output is padded with this many KiB (so that cache copies take time)
	Shared      bool              `json:"shared,omitempty"`   // one more file output whose content is the same constant for every target
	// SwapOuts (targets with >= 2 file outputs): the first two file outputs exchange their contents — the set of
	// output digests stays the same while the assignment of contents to paths changes
	SwapOuts bool `json:"swap_outs,omitempty"`
}

type Alias struct {
	Pkg    string `json:"pkg"`
	Name   string `json:"name"`
	Actual string `json:"actual"`
}

type WS struct {
	Targets []Target          `json:"targets"`
	Aliases []Alias           `json:"aliases,omitempty"`
	Files   map[string]string `json:"files"` // workspace-relative source files
	Workers int               `json:"workers"`
	Algo    string            `json:"algo"`
	// Previous remembers the content a file had before its last edit (so that a history can revert it)
	Previous map[string]string `json:"previous,omitempty"`
	// Remote: configure the S3 remote cache (bucket "bkt", prefix "pfx"); the endpoint comes from the environment
	Remote bool `json:"remote,omitempty"`
	// Spell: how labels are written in the BUILD files (rendering only; the abstract workspace keeps absolute labels):
	// bit 0: a dependency in the same package is written ":name"; bit 1: so is an alias' "actual";
	// bit 2: //pkg:name with name == last segment of pkg is written "//pkg"
	Spell int `json:"spell,omitempty"`
}

func splitLabel(l string) (pkg, name string, ok bool) {
	rest := strings.TrimPrefix(l, "//")
	i := strings.LastIndex(rest, ":")
	if i < 0 {
		return "", "", false
	}
	return rest[:i], rest[i+1:], true
}

// relSpelling: ":name" if l lives in fromPkg, else "".
func (w WS) relSpelling(fromPkg, l string) string {
	if pkg, name, ok := splitLabel(l); ok && pkg == fromPkg {
		return ":" + name
	}
	return ""
}

// shortSpelling: "//pkg" if l is //pkg:<last segment of pkg>, else "".
func (w WS) shortSpelling(l string) string {
	if pkg, name, ok := splitLabel(l); ok && pkg != "" && path.Base(pkg) == name {
		return "//" + pkg
	}
	return ""
}

func (w WS) spellLabel(fromPkg, l string, relBit int) string {
	rest := strings.TrimPrefix(l, "//")
	i := strings.LastIndex(rest, ":")
	if i < 0 {
		return l
	}
	pkg, name := rest[:i], rest[i+1:]
	if w.Spell&relBit != 0 && pkg == fromPkg {
		return ":" + name
	}
	if w.Spell&4 != 0 && pkg != "" && path.Base(pkg) == name {
		return "//" + pkg
	}
	return l
}

func Label(pkg, name string) string { return "//" + pkg + ":" + name }
func (t Target) Label() string      { return Label(t.Pkg, t.Name) }
func (a Alias) Label() string       { return Label(a.Pkg, a.Name) }
func (t Target) ID() string {
	return strings.NewReplacer("/", "_", ":", "_").Replace(strings.TrimPrefix(t.Label(), "//"))
}
func (t Target) HasTag(tag string) bool {
	for _, x := range t.Tags {
		if x == tag {
			return true
		}
	}
	return false
}
func (t Target) NoCache() bool { return t.HasTag("no-cache") }

func (w WS) Clone() WS {
	b, _ := json.Marshal(w)
	var c WS
	_ = json.Unmarshal(b, &c)
	if c.Files == nil {
		c.Files = map[string]string{}
	}
	return c
}

func (w WS) Target(label string) *Target {
	for i := range w.Targets {
		if w.Targets[i].Label() == label {
			return &w.Targets[i]
		}
	}
	return nil
}

// Resolve follows alias chains ("" if dangling or cyclic).
func (w WS) Resolve(label string) string {
	for i := 0; i <= len(w.Aliases); i++ {
		found := false
		for _, a := range w.Aliases {
			if a.Label() == label {
				label, found = a.Actual, true
				break
			}
		}
		if !found {
			return label
		}
	}
	return ""
}

// DirectDeps: labels of the targets t depends on directly, aliases resolved, sorted, unique.
func (w WS) DirectDeps(t *Target) []string {
	seen := map[string]bool{}
	var out []string
	for _, d := range t.Deps {
		r := w.Resolve(d)
		if r != "" && !seen[r] && w.Target(r) != nil {
			seen[r] = true
			out = append(out, r)
		}
	}
	sort.Strings(out)
	return out
}

// EffectiveDeps: the targets whose commands have to be finished before t's command may start: direct dependencies,
// looking through grouping targets (which have no command of their own).
func (w WS) EffectiveDeps(t *Target) []string {
	seen := map[string]bool{}
	var out []string
	var visit func(x *Target)
	visit = func(x *Target) {
		for _, d := range w.DirectDeps(x) {
			if seen[d] {
				continue
			}
			seen[d] = true
			if dt := w.Target(d); dt != nil && dt.NoCommand {
				visit(dt)
			} else {
				out = append(out, d)
			}
		}
	}
	visit(t)
	sort.Strings(out)
	return out
}

// Closure over node labels (targets and aliases) reachable from seeds via dependency edges.
func (w WS) Closure(seeds []string) map[string]bool {
	deps := map[string][]string{}
	for _, t := range w.Targets {
		deps[t.Label()] = t.Deps
	}
	for _, a := range w.Aliases {
		deps[a.Label()] = []string{a.Actual}
	}
	seen := map[string]bool{}
	stack := append([]string{}, seeds...)
	for len(stack) > 0 {
		l := stack[len(stack)-1]
		stack = stack[:len(stack)-1]
		if seen[l] {
			continue
		}
		seen[l] = true
		stack = append(stack, deps[l]...)
	}
	return seen
}

// TopoOrder returns target labels with dependencies first.
func (w WS) TopoOrder() []string {
	var order []string
	state := map[string]int{}
	var visit func(l string)
	visit = func(l string) {
		if state[l] != 0 {
			return
		}
		state[l] = 1
		t := w.Target(l)
		for _, d := range w.DirectDeps(t) {
			visit(d)
		}
		state[l] = 2
		order = append(order, l)
	}
	labels := []string{}
	for _, t := range w.Targets {
		labels = append(labels, t.Label())
	}
	sort.Strings(labels)
	for _, l := range labels {
		visit(l)
	}
	return order
}

// ------------------------------------------------------------ input patterns

// The supported input patterns and how the command enumerates the same files
// itself at run time (so the command text does not change when membership does).
func matchPattern(pattern, rel string) bool {
	switch {
	case strings.Contains(pattern, "**/"):
		// dir/**/*.ext : any depth below dir (including zero)
		i := strings.Index(pattern, "**/")
		dir, tail := strings.TrimSuffix(pattern[:i], "/"), pattern[i+3:]
		if dir != "" && !strings.HasPrefix(rel, dir+"/") {
			return false
		}
		ok, _ := path.Match(tail, path.Base(rel))
		return ok && !strings.HasPrefix(path.Base(rel), ".")
	case strings.ContainsAny(pattern, "*?["):
		if path.Dir(pattern) != path.Dir(rel) {
			return false
		}
		ok, _ := path.Match(path.Base(pattern), path.Base(rel))
		return ok && !strings.HasPrefix(path.Base(rel), ".")
	default:
		return path.Clean(pattern) == rel
	}
}

// ResolvedInputs: package-relative paths of existing source files matched by the target's inputs minus excludes, sorted (C locale).
func (w WS) ResolvedInputs(t *Target) []string {
	prefix := ""
	if t.Pkg != "" {
		prefix = t.Pkg + "/"
	}
	set := map[string]bool{}
	for f := range w.Files {
		if !strings.HasPrefix(f, prefix) {
			continue
		}
		rel := strings.TrimPrefix(f, prefix)
		for _, p := range t.Inputs {
			if matchPattern(p, rel) {
				set[rel] = true
			}
		}
	}
	for rel := range set {
		for _, e := range t.Excludes {
			if matchPattern(e, rel) {
				delete(set, rel)
			}
		}
	}
	var out []string
	for rel := range set {
		out = append(out, rel)
	}
	sort.Strings(out)
	return out
}

func shQuote(s string) string { return "'" + strings.ReplaceAll(s, "'", `'\''`) + "'" }

// enumerateInputsSh prints one package-relative path per line, sorted, for the target's patterns minus excludes.
func enumerateInputsSh(t *Target) string {
	var b strings.Builder
	b.WriteString("{ ")
	for _, p := range t.Inputs {
		switch {
		case strings.Contains(p, "**/"):
			i := strings.Index(p, "**/")
			dir, tail := strings.TrimSuffix(p[:i], "/"), p[i+3:]
			if dir == "" {
				dir = "."
			}
			fmt.Fprintf(&b, "if [ -d %s ]; then find %s -type f -name %s ! -name '.*' | sed 's|^\\./||'; fi; ", shQuote(dir), shQuote(dir), shQuote(tail))
		case strings.ContainsAny(p, "*?["):
			fmt.Fprintf(&b, "for f in %s; do if [ -f \"$f\" ]; then echo \"$f\"; fi; done; ", p)
		default:
			fmt.Fprintf(&b, "if [ -f %s ]; then echo %s; fi; ", shQuote(p), shQuote(path.Clean(p)))
		}
	}
	b.WriteString("} | LC_ALL=C sort -u")
	for _, e := range t.Excludes {
		switch {
		case strings.Contains(e, "**/"):
			i := strings.Index(e, "**/")
			dir, tail := strings.TrimSuffix(e[:i], "/"), e[i+3:]
			re := strings.NewReplacer(".", `\.`, "*", `[^/]*`).Replace(tail)
			if dir == "" {
				fmt.Fprintf(&b, " | grep -v -E %s", shQuote("(^|/)"+re+"$"))
			} else {
				fmt.Fprintf(&b, " | grep -v -E %s", shQuote("^"+dir+"/(.*/)?"+re+"$"))
			}
		case strings.ContainsAny(e, "*?["):
			re := strings.NewReplacer(".", `\.`, "*", `[^/]*`).Replace(e)
			fmt.Fprintf(&b, " | grep -v -E %s", shQuote("^"+re+"$"))
		default:
			fmt.Fprintf(&b, " | grep -v -x -F %s", shQuote(path.Clean(e)))
		}
	}
	return b.String()
}

// ------------------------------------------------------------ outputs

type OutFile struct {
	Content string
	Exec    bool
	Link    string // symlink target (Content unused)
	Dir     bool   // empty directory marker
}

// OutPath: workspace-relative clean path of a declared output of t.
func (t Target) OutPath(spelling string) string {
	return path.Clean(path.Join(t.Pkg, spelling))
}

// AllOutPaths lists workspace-relative output roots: files then dirs then bin.
func (t Target) AllOutPaths() (files, dirs []string) {
	for _, f := range t.OutFiles {
		files = append(files, t.OutPath(f))
	}
	if t.Bin != "" {
		files = append(files, t.OutPath(t.Bin))
	}
	if t.Shared {
		files = append(files, t.OutPath(t.sharedPath()))
	}
	for _, d := range t.OutDirs {
		dirs = append(dirs, t.OutPath(d))
	}
	return
}

func (t Target) HasOutputs() bool {
	return len(t.OutFiles)+len(t.OutDirs) > 0 || t.Bin != "" || t.Shared
}

func (t Target) sharedPath() string { return "shared/" + t.Name + ".const" }

// Expect computes, for every target, the expected state of every declared output:
// workspace-relative path -> OutFile (for dir outputs every entry below the dir, plus the dir itself).
// It also returns each target's "body" (the text the command derives from its inputs and dependency outputs).
func (w WS) Expect() (outs map[string]map[string]OutFile, bodies map[string]string) {
	outs = map[string]map[string]OutFile{}
	bodies = map[string]string{}
	for _, l := range w.TopoOrder() {
		t := w.Target(l)
		var b strings.Builder
		fmt.Fprintf(&b, "target %s nonce=%d\n", t.Label(), t.Nonce)
		for _, rel := range w.ResolvedInputs(t) {
			fmt.Fprintf(&b, "== %s\n%s\n", rel, w.Files[path.Join(t.Pkg, rel)])
		}
		for _, dl := range w.DirectDeps(t) {
			d := w.Target(dl)
			fmt.Fprintf(&b, "++ %s\n", dl)
			paths := make([]string, 0, len(outs[dl]))
			for p := range outs[dl] {
				paths = append(paths, p)
			}
			sort.Strings(paths)
			_ = d
			for _, p := range paths {
				of := outs[dl][p]
				switch {
				case of.Dir:
					fmt.Fprintf(&b, "d %s\n", p)
				case of.Link != "":
					fmt.Fprintf(&b, "l %s -> %s\n", p, of.Link)
				default:
					x := "-"
					if of.Exec {
						x = "x"
					}
					fmt.Fprintf(&b, "f %s %s\n%s\n", p, x, of.Content)
				}
			}
			if d.Bin != "" {
				fmt.Fprintf(&b, "!! %s\n%s", dl, bodies[dl])
			}
		}
		body := b.String()
		bodies[l] = body
		m := map[string]OutFile{}
		for i, f := range t.OutFiles {
			role := i
			if t.SwapOuts && len(t.OutFiles) >= 2 && i < 2 {
				role = 1 - i
			}
			content := body
			if role > 0 {
				content = fmt.Sprintf("%s#%d\n", body, role)
			}
			if role == 0 && t.PadKB > 0 {
				content += strings.Repeat("x", t.PadKB*1024)
			}
			m[t.OutPath(f)] = OutFile{Content: content, Exec: i == 0 && t.ExecBit}
		}
		if t.Shared {
			m[t.OutPath(t.sharedPath())] = OutFile{Content: "the same bytes in every target\n"}
		}
		if t.Bin != "" {
			// the here-document delimiter is unique per target: a body may embed the script of a dependency
			m[t.OutPath(t.Bin)] = OutFile{Content: "#!/bin/sh\ncat <<'EOF_" + t.ID() + "'\n" + body + "EOF_" + t.ID() + "\n", Exec: true}
		}
		for _, d := range t.OutDirs {
			root := t.OutPath(d)
			m[root] = OutFile{Dir: true}
			m[root+"/main.txt"] = OutFile{Content: body}
			m[root+"/sub"] = OutFile{Dir: true}
			m[root+"/sub/copy.txt"] = OutFile{Content: body}
			m[root+"/sub/tool.sh"] = OutFile{Content: "#!/bin/sh\necho tool\n", Exec: true}
			m[root+"/empty"] = OutFile{Dir: true}
			m[root+"/link"] = OutFile{Link: "main.txt"}
			// one entry per resolved input: the set of entries moves with glob membership
			m[root+"/in"] = OutFile{Dir: true}
			m[root+"/zlink"] = OutFile{Link: "main.txt"}
			m[root+"/by"] = OutFile{Dir: true}
			m[fmt.Sprintf("%s/n%d", root, len(body))] = OutFile{Dir: true}
			m[fmt.Sprintf("%s/n%d/f", root, len(body))] = OutFile{Content: "x\n"}
			for _, rel := range w.ResolvedInputs(t) {
				u := strings.ReplaceAll(rel, "/", "_")
				m[root+"/in/"+u] = OutFile{Content: w.Files[path.Join(t.Pkg, rel)]}
				m[root+"/by/"+u] = OutFile{Dir: true}
				m[root+"/by/"+u+"/v"] = OutFile{Content: w.Files[path.Join(t.Pkg, rel)]}
			}
		}
		outs[l] = m
	}
	return outs, bodies
}

// OutputState: digest of everything a dependant can observe of t (its outputs, or its own key if it has none).
func digest(parts ...string) string {
	h := sha256.New()
	for _, p := range parts {
		fmt.Fprintf(h, "%d:%s", len(p), p)
	}
	return hex.EncodeToString(h.Sum(nil))[:24]
}

// ------------------------------------------------------------ command template

// Command renders the sh command of t. It never contains an absolute path, the
// resolved input list, or anything else that is not part of the declared state.
func (w WS) Command(t *Target) string {
	if t.NoCommand {
		return ""
	}
	var b strings.Builder
	id := t.ID()
	b.WriteString("export LC_ALL=C\n")
	// a command that ignores SIGTERM (cleanup handlers do that); only used by the interrupt check
	b.WriteString("if [ -n \"${VERIF_TRAP_TERM:-}\" ]; then trap '' TERM; fi\n")
	fmt.Fprintf(&b, "printf 'S %%s\\n' \"$GROG_TARGET\" >> \"$TRACE\"\n")
	// who runs me: the parent of this shell is the grog process (used when several grog processes share a workspace)
	fmt.Fprintf(&b, "if [ -n \"${TRACE_PID:-}\" ]; then printf 'S %%s %%s\\n' \"$PPID\" \"$GROG_TARGET\" >> \"$TRACE_PID\"; fi\n")
	if t.Gate != "" {
		fmt.Fprintf(&b, "i=0; while [ $i -lt 60 ] && ! grep -q -x -F %s \"$TRACE\"; do sleep 0.05; i=$((i+1)); done\n", shQuote("S "+t.Gate))
	}
	fmt.Fprintf(&b, "if [ -f \"$EXT/slow.%s\" ]; then sleep \"$(cat \"$EXT/slow.%s\")\"; fi\n", id, id)
	if t.SlowMs > 0 {
		fmt.Fprintf(&b, "sleep %d.%03d\n", t.SlowMs/1000, t.SlowMs%1000)
	}
	fmt.Fprintf(&b, "if [ -f \"$EXT/selfkill.%s\" ]; then printf 'F %%s\\n' \"$GROG_TARGET\" >> \"$TRACE\"; kill -KILL $$; fi\n", id)
	fmt.Fprintf(&b, "if [ -f \"$EXT/fail.%s\" ]; then printf 'F %%s\\n' \"$GROG_TARGET\" >> \"$TRACE\"; echo boom >&2; exit 3; fi\n", id)
	// body
	b.WriteString("body=\"$(mktemp)\"\n{\n")
	fmt.Fprintf(&b, "printf 'target %%s nonce=%d\\n' \"$GROG_TARGET\"\n", t.Nonce)
	if len(t.Inputs) > 0 {
		fmt.Fprintf(&b, "%s | while IFS= read -r f; do printf '== %%s\\n' \"$f\"; cat \"$f\"; printf '\\n'; done\n", enumerateInputsSh(t))
	}
	for _, dl := range w.DirectDeps(t) {
		d := w.Target(dl)
		fmt.Fprintf(&b, "printf '++ %%s\\n' %s\n", shQuote(dl))
		files, dirs := d.AllOutPaths()
		// entries are listed in sorted path order over all outputs of the dependency
		type root struct {
			p   string
			dir bool
		}
		var roots []root
		for _, f := range files {
			roots = append(roots, root{f, false})
		}
		for _, dd := range dirs {
			roots = append(roots, root{dd, true})
		}
		b.WriteString("{\n:\n")
		for _, r := range roots {
			if r.dir {
				fmt.Fprintf(&b, "(cd \"$GROG_WORKSPACE_ROOT\" && find %s | sed 's|^\\./||')\n", shQuote(r.p))
			} else {
				fmt.Fprintf(&b, "if [ -e \"$GROG_WORKSPACE_ROOT\"/%s ]; then echo %s; else echo MISSING-%s; fi\n", shQuote(r.p), shQuote(r.p), shQuote(r.p))
			}
		}
		b.WriteString("} | LC_ALL=C sort | while IFS= read -r p; do q=\"$GROG_WORKSPACE_ROOT/$p\"; if [ -L \"$q\" ]; then printf 'l %s -> %s\\n' \"$p\" \"$(readlink \"$q\")\"; elif [ -d \"$q\" ]; then printf 'd %s\\n' \"$p\"; else x=-; if [ -x \"$q\" ]; then x=x; fi; printf 'f %s %s\\n' \"$p\" \"$x\"; cat \"$q\"; printf '\\n'; fi; done\n")
		if d.Bin != "" {
			// run the dependency's tool through grog's $(bin <label>) script function: it prints the dependency's body
			fmt.Fprintf(&b, "printf '!! %%s\\n' %s\n\"$(bin %s)\" || echo TOOL-FAILED\n", shQuote(dl), shQuote(dl))
		}
	}
	b.WriteString("} > \"$body\"\n")
	// outputs
	for i, f := range t.OutFiles {
		role := i
		if t.SwapOuts && len(t.OutFiles) >= 2 && i < 2 {
			role = 1 - i
		}
		if t.InPlace {
			// rewrite an existing regular file in place (same inode), as `cmd > out` does
			fmt.Fprintf(&b, "mkdir -p \"$(dirname %s)\"; if [ -L %s ] || [ ! -f %s ] || [ -f \"$EXT/skipout.%s.%d\" ]; then rm -rf %s; fi; if [ ! -f \"$EXT/skipout.%s.%d\" ]; then cat \"$body\" > %s", shQuote(f), shQuote(f), shQuote(f), id, i, shQuote(f), id, i, shQuote(f))
		} else {
			fmt.Fprintf(&b, "mkdir -p \"$(dirname %s)\"; rm -rf %s; if [ ! -f \"$EXT/skipout.%s.%d\" ]; then cp \"$body\" %s", shQuote(f), shQuote(f), id, i, shQuote(f))
		}
		if role > 0 {
			fmt.Fprintf(&b, "; printf '#%d\\n' >> %s", role, shQuote(f))
		}
		if role == 0 && t.PadKB > 0 {
			fmt.Fprintf(&b, "; head -c %d /dev/zero | tr '\\000' x >> %s", t.PadKB*1024, shQuote(f))
		}
		if i == 0 && t.ExecBit {
			fmt.Fprintf(&b, "; chmod 755 %s", shQuote(f))
		} else {
			fmt.Fprintf(&b, "; chmod 644 %s", shQuote(f))
		}
		b.WriteString("; fi\n")
	}
	if t.Shared {
		sp := shQuote(t.sharedPath())
		fmt.Fprintf(&b, "mkdir -p \"$(dirname %s)\"; rm -rf %s; printf 'the same bytes in every target\\n' > %s; chmod 644 %s\n", sp, sp, sp, sp)
	}
	if t.Bin != "" {
		fmt.Fprintf(&b, "mkdir -p \"$(dirname %s)\"; rm -rf %s; { printf '#!/bin/sh\\ncat <<'\"'\"'EOF_%s'\"'\"'\\n'; cat \"$body\"; printf 'EOF_%s\\n'; } > %s\n", shQuote(t.Bin), shQuote(t.Bin), id, id, shQuote(t.Bin))
	}
	for _, d := range t.OutDirs {
		q := shQuote(d)
		fmt.Fprintf(&b, "rm -rf %s; mkdir -p %s/sub %s/empty; cp \"$body\" %s/main.txt; cp \"$body\" %s/sub/copy.txt; printf '#!/bin/sh\\necho tool\\n' > %s/sub/tool.sh; chmod 755 %s/sub/tool.sh; chmod 644 %s/main.txt %s/sub/copy.txt; ln -s main.txt %s/link; mkdir -p %s/in\n", q, q, q, q, q, q, q, q, q, q, q)
		// a link that sorts after what it points to, and sub-directories that come and go with the state: one named after
		// the size of the body, one per resolved input
		fmt.Fprintf(&b, "ln -s main.txt %s/zlink; n=$(wc -c < \"$body\" | tr -d ' '); mkdir -p %s/by %s/n$n; printf 'x\\n' > %s/n$n/f; chmod 644 %s/n$n/f\n", q, q, q, q, q)
		if len(t.Inputs) > 0 {
			fmt.Fprintf(&b, "%s | while IFS= read -r f; do u=\"$(printf '%%s' \"$f\" | tr / _)\"; cp \"$f\" %s/in/\"$u\"; chmod 644 %s/in/\"$u\"; mkdir -p %s/by/\"$u\"; cp \"$f\" %s/by/\"$u\"/v; chmod 644 %s/by/\"$u\"/v; done\n", enumerateInputsSh(t), q, q, q, q, q)
		}
	}
	b.WriteString("rm -f \"$body\"\n")
	for _, c := range t.Checks {
		if c.Establish {
			content := c.Expected
			if content == "" {
				content = "ok"
			}
			fmt.Fprintf(&b, "if [ -f \"$EXT/wrongestablish.%s\" ]; then printf 'not-what-the-check-wants' > \"$EXT/marker.%s\"; elif [ ! -f \"$EXT/noestablish.%s\" ]; then printf '%%s' %s > \"$EXT/marker.%s\"; fi\n", c.Marker, c.Marker, c.Marker, shQuote(content), c.Marker)
		}
	}
	fmt.Fprintf(&b, "if [ -n \"${TRACE_PID:-}\" ]; then printf 'E %%s %%s\\n' \"$PPID\" \"$GROG_TARGET\" >> \"$TRACE_PID\"; fi\n")
	fmt.Fprintf(&b, "printf 'E %%s\\n' \"$GROG_TARGET\" >> \"$TRACE\"\n")
	// the last statement decides the exit status: an and-list whose left side is false fails without tripping `set -e`
	fmt.Fprintf(&b, "[ ! -f \"$EXT/softfail.%s\" ] && :\n", id)
	return b.String()
}

// CheckCommand renders the output check command for c (logs a K line so that its execution is observable).
func CheckCommand(c Check) string {
	if c.Expected == "" {
		return fmt.Sprintf("printf 'K %%s %s\\n' \"$GROG_TARGET\" >> \"$TRACE\"; test -f \"$EXT/marker.%s\" && :", c.Marker, c.Marker)
	}
	return fmt.Sprintf("printf 'K %%s %s\\n' \"$GROG_TARGET\" >> \"$TRACE\"; test -f \"$EXT/marker.%s\" && cat \"$EXT/marker.%s\"", c.Marker, c.Marker, c.Marker)
}

// OutputDefs: declared outputs as written into the BUILD file.
func (t Target) OutputDefs() []string {
	var defs []string
	defs = append(defs, t.OutFiles...)
	if t.Shared {
		defs = append(defs, t.sharedPath())
	}
	for _, d := range t.OutDirs {
		defs = append(defs, "dir::"+d)
	}
	return defs
}

type buildTarget struct {
	Name         string              `json:"name"`
	Command      string              `json:"command"`
	Dependencies []string            `json:"dependencies,omitempty"`
	Inputs       []string            `json:"inputs,omitempty"`
	Excludes     []string            `json:"exclude_inputs,omitempty"`
	Outputs      []string            `json:"outputs,omitempty"`
	Bin          string              `json:"bin_output,omitempty"`
	Tags         []string            `json:"tags,omitempty"`
	Fingerprint  map[string]string   `json:"fingerprint,omitempty"`
	Timeout      string              `json:"timeout,omitempty"`
	Checks       []map[string]string `json:"output_checks,omitempty"`
}

// Render produces every file of the workspace: sources, BUILD.json per package, grog.toml.
func (w WS) Render() map[string]string {
	files := map[string]string{}
	for p, c := range w.Files {
		files[p] = c
	}
	type bf struct {
		Targets []buildTarget       `json:"targets"`
		Aliases []map[string]string `json:"aliases,omitempty"`
	}
	pkgs := map[string]*bf{}
	get := func(p string) *bf {
		if pkgs[p] == nil {
			pkgs[p] = &bf{Targets: []buildTarget{}}
		}
		return pkgs[p]
	}
	for i := range w.Targets {
		t := &w.Targets[i]
		var spelled []string
		declared := map[string]string{}
		for _, d := range t.Deps {
			sp := w.spellLabel(t.Pkg, d, 1)
			if first, again := declared[d]; again {
				// the same dependency declared a second time: in another spelling where the label has one
				for _, alt := range []string{d, w.relSpelling(t.Pkg, d), w.shortSpelling(d)} {
					if alt != "" && alt != first {
						sp = alt
						break
					}
				}
			} else {
				declared[d] = sp
			}
			spelled = append(spelled, sp)
		}
		bt := buildTarget{Name: t.Name, Command: w.Command(t), Dependencies: spelled, Inputs: t.Inputs, Excludes: t.Excludes, Outputs: t.OutputDefs(), Bin: t.Bin,
			Tags: t.Tags, Fingerprint: t.Fingerprint, Timeout: t.Timeout}
		for _, c := range t.Checks {
			m := map[string]string{"command": CheckCommand(c)}
			if c.Expected != "" {
				m["expected_output"] = c.Expected
			}
			bt.Checks = append(bt.Checks, m)
		}
		get(t.Pkg).Targets = append(get(t.Pkg).Targets, bt)
	}
	for _, a := range w.Aliases {
		get(a.Pkg).Aliases = append(get(a.Pkg).Aliases, map[string]string{"name": a.Name, "actual": w.spellLabel(a.Pkg, a.Actual, 2)})
	}
	for p, f := range pkgs {
		b, _ := json.MarshalIndent(f, "", " ")
		files[filepath.Join(p, "BUILD.json")] = string(b)
	}
	workers := w.Workers
	if workers < 1 {
		workers = 4
	}
	algo := w.Algo
	if algo == "" {
		algo = "xxh3"
	}
	files["grog.toml"] = fmt.Sprintf("num_workers = %d\nhash_algorithm = %q\nlog_level = \"info\"\n", workers, algo)
	if w.Remote {
		files["grog.toml"] += "\n[cache]\nbackend = \"s3\"\n\n[cache.s3]\nbucket = \"bkt\"\nprefix = \"pfx\"\n"
	}
	return files
}

// Keys returns two abstract cache keys per target for the current workspace state.
// strict: everything the properties name (label, command, (input path, content) pairs, declared outputs,
// fingerprint, output state of every direct dependency; an output-less dependency contributes its own key).
// loose: the same without any contribution of output-less dependencies — the properties do not say whether a
// dependant must notice a change of a dependency that produces nothing it could read.
// Equal strict keys => the code must find the cached result; a new loose key => the code must miss.
func (w WS) Keys() (strict, loose map[string]string) {
	outs, _ := w.Expect()
	strict, loose = map[string]string{}, map[string]string{}
	outState := map[string]string{}
	for _, l := range w.TopoOrder() {
		t := w.Target(l)
		parts := []string{"label", l, "cmd", w.Command(t)}
		for _, rel := range w.ResolvedInputs(t) {
			parts = append(parts, "in", rel, w.Files[path.Join(t.Pkg, rel)])
		}
		defs := append([]string{}, t.OutputDefs()...)
		sort.Strings(defs)
		parts = append(parts, "outs", strings.Join(defs, "\x00"), "bin", t.Bin)
		fpk := make([]string, 0, len(t.Fingerprint))
		for k := range t.Fingerprint {
			fpk = append(fpk, k)
		}
		sort.Strings(fpk)
		for _, k := range fpk {
			parts = append(parts, "fp", k, t.Fingerprint[k])
		}
		sparts := append([]string{}, parts...)
		lparts := append([]string{}, parts...)
		for _, d := range w.DirectDeps(t) {
			sparts = append(sparts, "dep", d, outState[d])
			if w.Target(d).HasOutputs() {
				lparts = append(lparts, "dep", d, outState[d])
			}
		}
		strict[l] = digest(sparts...)
		loose[l] = "L" + digest(lparts...)
		if t.HasOutputs() {
			paths := make([]string, 0, len(outs[l]))
			for p := range outs[l] {
				paths = append(paths, p)
			}
			sort.Strings(paths)
			sp := []string{}
			for _, p := range paths {
				of := outs[l][p]
				sp = append(sp, p, of.Content, fmt.Sprint(of.Exec), of.Link, fmt.Sprint(of.Dir))
			}
			outState[l] = digest(sp...)
		} else {
			outState[l] = strict[l]
		}
	}
	return strict, loose
}
