package histeng

import (
	"fmt"
	"path"

	"pgregory.net/rapid"
)

type Profile struct {
	MaxTargets   int
	Edits        []string // abstract edit kinds allowed
	Perturbs     []string
	ExtSteps     []string
	Taint        bool
	NoCacheBuild bool // builds may disable the cache
	NoCacheTags  bool
	FailFast     bool
	Minimal      bool // builds may use load_outputs=minimal
	Checks       bool // targets may carry output checks
	Timeouts     bool
	TimeoutPct   int // share of targets that declare a timeout (default 25)
	DirOutputs   bool
	BinOutputs   bool
	Clean        bool // `grog clean` as a history step
	Groups       bool // grouping targets (dependencies, no command)
	BinWeight    int // extra weight of "the only output is a bin_output"
	MinSteps     int
	MaxSteps     int
	SubsetBuilds bool // builds may name a single label instead of //...
	Faults       bool // "fault-wipe-cas" steps
	Kills        bool // "build-kill" steps: kill -9 the whole process group during a build
	CasFaults    bool // "build-casfault" steps: the blob store is unwritable for the duration of one build
	BigOutputs   bool // first file outputs padded to 0.2-3 MiB, shared constant blobs
	Workers      []int
}

var AllEdits = []string{"edit-content", "edit-content", "shift-boundary", "swap-contents", "add-file", "remove-file", "rename-file", "toggle-file", "toggle-file", "bump-nonce",
	"edit-fingerprint", "rename-output", "add-edge", "add-edge-alias", "remove-edge", "reroute-alias", "retarget-alias", "toggle-execbit", "swap-output-roles"}
var AllPerturbs = []string{"perturb-clean", "perturb-delete", "perturb-delete-parent", "perturb-truncate", "perturb-overwrite", "perturb-chmod", "perturb-stale-entry", "perturb-file-for-dir", "perturb-dir-for-file", "perturb-symlink"}

var pkgPool = []string{"", "a", "a/b", "ab", "c/d"}

// GenWS draws a workspace: 1..MaxTargets targets over up to 5 packages, each with
// its own source files, unique outputs, dependencies on earlier targets (35% through aliases).
func GenWS(t *rapid.T, p Profile) WS {
	w := WS{Files: map[string]string{}}
	workers := p.Workers
	if len(workers) == 0 {
		workers = []int{1, 2, 4, 8}
	}
	w.Workers = rapid.SampledFrom(workers).Draw(t, "workers")
	w.Algo = rapid.SampledFrom([]string{"xxh3", "sha256"}).Draw(t, "algo")
	w.Spell = rapid.IntRange(0, 7).Draw(t, "spell")
	n := rapid.IntRange(1, p.MaxTargets).Draw(t, "ntargets")
	for i := 0; i < n; i++ {
		tg := Target{Pkg: rapid.SampledFrom(pkgPool).Draw(t, "pkg"), Name: fmt.Sprintf("t%d", i)}
		// sometimes a target is named like a sub-package that has targets of its own (//a:b next to package a/b, //:a next to package a)
		if rapid.IntRange(0, 5).Draw(t, "pkglike-name") == 0 {
			want := map[string]string{"": "a", "a": "b", "c": "d"}[tg.Pkg]
			taken := false
			for _, o := range w.Targets {
				if o.Pkg == tg.Pkg && o.Name == want {
					taken = true
				}
			}
			if want != "" && !taken {
				tg.Name = want
			}
		}
		// ... or like its own package (//a/b:b), which has the shorthand spelling //a/b
		if tg.Pkg != "" && rapid.IntRange(0, 5).Draw(t, "pkg-named") == 0 {
			want, taken := path.Base(tg.Pkg), false
			for _, o := range w.Targets {
				if o.Pkg == tg.Pkg && o.Name == want {
					taken = true
				}
			}
			if !taken {
				tg.Name = want
			}
		}
		// sources of the package (shared by the targets of that package)
		for _, f := range []string{"top.txt", "src/a.txt", "src/b.txt", "src/c.txt", "src/deep/d.txt"} {
			full := path.Join(tg.Pkg, f)
			if _, ok := w.Files[full]; !ok && rapid.IntRange(0, 4).Draw(t, "hasfile") > 0 {
				w.Files[full] = rapid.SampledFrom(contentPool).Draw(t, "content")
			}
		}
		switch rapid.IntRange(0, 6).Draw(t, "inputs") {
		case 6: // the same files, spelled the long way round
			tg.Inputs = []string{"./top.txt", "src/../src/a.txt", "src/./b.txt"}
		case 0:
		case 1:
			tg.Inputs = []string{"top.txt"}
		case 2:
			tg.Inputs = []string{"src/*.txt"}
		case 3:
			tg.Inputs = []string{"src/**/*.txt"}
		case 4:
			tg.Inputs = []string{"src/*.txt", "top.txt"}
			tg.Excludes = []string{"src/b.txt"}
		default:
			tg.Inputs = []string{"src/a.txt", "src/b.txt", "src/missing.txt"}
		}
		if tg.Pkg == "a" && rapid.IntRange(0, 2).Draw(t, "childglob") == 0 {
			// a parent package may declare files that live inside a nested package's directory
			tg.Inputs = append(tg.Inputs, "b/src/*.txt")
			for _, f := range []string{"a/b/src/a.txt", "a/b/src/c.txt"} {
				if _, ok := w.Files[f]; !ok {
					w.Files[f] = rapid.SampledFrom(contentPool).Draw(t, "content")
				}
			}
		}
		kinds := []int{0, 1, 1, 1, 2}
		if p.DirOutputs {
			kinds = append(kinds, 3, 3, 4)
		}
		if p.BinOutputs {
			kinds = append(kinds, 5)
			for k := 0; k < p.BinWeight; k++ {
				kinds = append(kinds, 5)
			}
		}
		switch rapid.SampledFrom(kinds).Draw(t, "outputs") {
		case 0: // no outputs
		case 1:
			tg.OutFiles = []string{rapid.SampledFrom([]string{"out/%s.txt", "%s.out", "gen/deep/%s.txt", "./%s.o", "out/../%s.up"}).Draw(t, "outspell")}
			tg.OutFiles[0] = fmt.Sprintf(tg.OutFiles[0], tg.Name)
			tg.ExecBit = rapid.IntRange(0, 3).Draw(t, "execbit") == 0
		case 2:
			tg.OutFiles = []string{fmt.Sprintf("out/%s.1", tg.Name), fmt.Sprintf("multi/%s.2", tg.Name)}
		case 3:
			tg.OutDirs = []string{fmt.Sprintf(rapid.SampledFrom([]string{"dist_%s", "build/%s_d"}).Draw(t, "dirspell"), tg.Name)}
		case 4:
			tg.OutDirs = []string{fmt.Sprintf("dist_%s", tg.Name)}
			tg.OutFiles = []string{fmt.Sprintf("out/%s.txt", tg.Name)}
		case 5:
			tg.Bin = fmt.Sprintf("bin/%s.sh", tg.Name)
		}
		tg.InPlace = len(tg.OutFiles) > 0 && rapid.IntRange(0, 2).Draw(t, "inplace") == 0
		for j := 0; j < i; j++ {
			if rapid.IntRange(0, 99).Draw(t, "edge") < 35 {
				l := w.Targets[j].Label()
				if rapid.IntRange(0, 99).Draw(t, "viaalias") < 35 {
					for k := rapid.IntRange(1, 2).Draw(t, "chain"); k > 0; k-- {
						a := Alias{Pkg: rapid.SampledFrom(pkgPool).Draw(t, "aliaspkg"), Name: fmt.Sprintf("al%d", len(w.Aliases)), Actual: l}
						w.Aliases = append(w.Aliases, a)
						l = a.Label()
					}
				}
				tg.Deps = append(tg.Deps, l)
			}
		}
		if len(tg.Deps) > 0 && rapid.IntRange(0, 7).Draw(t, "dupdep") == 0 {
			// the same dependency declared twice (generated BUILD files do that): still one edge, one label in every query
			tg.Deps = append(tg.Deps, tg.Deps[rapid.IntRange(0, len(tg.Deps)-1).Draw(t, "which")])
		}
		if p.NoCacheTags && rapid.IntRange(0, 4).Draw(t, "nocache") == 0 {
			tg.Tags = append(tg.Tags, "no-cache")
		}
		if p.Checks && rapid.IntRange(0, 2).Draw(t, "checks") == 0 {
			nc := rapid.IntRange(1, 2).Draw(t, "nchecks")
			for k := 0; k < nc; k++ {
				tg.Checks = append(tg.Checks, Check{Marker: fmt.Sprintf("%s_%d", tg.ID(), k), Expected: rapid.SampledFrom([]string{"", "ok", "v2"}).Draw(t, "expected"),
					Establish: rapid.IntRange(0, 3).Draw(t, "establish") > 0})
			}
		}
		if p.Timeouts && rapid.IntRange(0, 99).Draw(t, "timeout") < timeoutPct(p) {
			tg.Timeout = "8s" // far above the ~50 ms a command takes even on a loaded machine; the slow switch sleeps 40 s
		}
		if rapid.IntRange(0, 5).Draw(t, "fp") == 0 {
			tg.Fingerprint = map[string]string{"v": "1"}
		}
		if p.BigOutputs {
			if len(tg.OutFiles) > 0 {
				tg.PadKB = rapid.SampledFrom([]int{0, 200, 1024, 3072}).Draw(t, "padkb")
			}
			tg.Shared = rapid.IntRange(0, 1).Draw(t, "shared") == 0
		}
		if p.Groups && len(tg.Deps) > 0 && rapid.IntRange(0, 6).Draw(t, "group") == 0 {
			// a grouping target: only dependencies (and whatever depends on it)
			tg = Target{Pkg: tg.Pkg, Name: tg.Name, Deps: tg.Deps, Tags: tg.Tags, NoCommand: true}
		}
		w.Targets = append(w.Targets, tg)
	}
	return w
}

// GenHistory draws a history: a workspace, an initial full build, then MinSteps..MaxSteps steps.
func GenHistory(t *rapid.T, p Profile) History {
	h := History{WS: GenWS(t, p)}
	first := Step{Kind: "build", Build: &BuildOpts{Patterns: []string{"//..."}}}
	if p.CasFaults && rapid.IntRange(0, 3).Draw(t, "first-build-faulty") == 0 {
		first.Kind = "build-casfault" // nothing is cached yet: whatever this build records is all there is
	}
	h.Steps = append(h.Steps, first)
	n := rapid.IntRange(p.MinSteps, p.MaxSteps).Draw(t, "nsteps")
	kinds := []string{"build", "build", "build"}
	kinds = append(kinds, p.Edits...)
	kinds = append(kinds, p.Perturbs...)
	kinds = append(kinds, p.ExtSteps...)
	if p.Taint {
		kinds = append(kinds, "taint", "taint")
	}
	if p.Faults {
		kinds = append(kinds, "fault-wipe-cas")
	}
	if p.Clean {
		kinds = append(kinds, "grog-clean")
	}
	if p.Kills {
		kinds = append(kinds, "build-kill", "build-kill", "build-kill")
	}
	if p.CasFaults {
		kinds = append(kinds, "build-casfault", "build-casfault")
	}
	for i := 0; i < n; i++ {
		k := rapid.SampledFrom(kinds).Draw(t, "kind")
		s := Step{Kind: k, T: rapid.IntRange(0, 7).Draw(t, "t"), F: rapid.IntRange(0, 7).Draw(t, "f"), V: rapid.IntRange(0, 7).Draw(t, "v")}
		if k == "build" || k == "build-kill" || k == "build-casfault" {
			s.Build = genBuild(t, p, h.WS)
			s.V = rapid.IntRange(0, 1500).Draw(t, "kill-after-ms")
		}
		h.Steps = append(h.Steps, s)
		switch k {
		case "set-wrongestablish":
			// the check passes before the run, the run itself breaks the post-condition: force the run with a command change
			h.Steps = append(h.Steps, Step{Kind: "bump-nonce", T: s.T}, Step{Kind: "build", Build: genBuild(t, p, h.WS)}, Step{Kind: "clear-switches"}, Step{Kind: "build", Build: genBuild(t, p, h.WS)})
		case "set-fail", "set-softfail", "set-skipout", "set-selfkill", "set-slow":
			// fail -> build -> clear -> build: the second build must attempt what failed or was skipped (nothing was cached)
			if rapid.IntRange(0, 1).Draw(t, "failmacro") == 0 {
				h.Steps = append(h.Steps, Step{Kind: "bump-nonce", T: s.T, V: rapid.IntRange(0, 1).Draw(t, "force")}, Step{Kind: "build", Build: genBuild(t, p, h.WS)}, Step{Kind: "clear-switches"}, Step{Kind: "build", Build: genBuild(t, p, h.WS)})
			}
		case "perturb-clean":
			// ... and something above a cached dependency has to run: what it reads must be brought back first
			h.Steps = append(h.Steps, Step{Kind: "bump-nonce", T: rapid.IntRange(0, 7).Draw(t, "t-after-clean")}, Step{Kind: "build", Build: genBuild(t, p, h.WS)})
		case "taint":
			// a tainted target whose forced run fails keeps its taint: the build after the repair must run it again
			switch m := rapid.IntRange(0, 3).Draw(t, "taintmacro"); {
			case m == 0 && len(p.ExtSteps) > 0:
				h.Steps = append(h.Steps, Step{Kind: "set-fail", T: s.T}, Step{Kind: "build", Build: &BuildOpts{Patterns: []string{"//..."}}}, Step{Kind: "clear-switches"},
					Step{Kind: "build", Build: &BuildOpts{Patterns: []string{"//..."}}}, Step{Kind: "build", Build: &BuildOpts{Patterns: []string{"//..."}}})
			case m == 1:
				// tainted AND changed: the run that the cache miss causes anyway must consume the taint, the build after it runs nothing
				h.Steps = append(h.Steps, Step{Kind: "bump-nonce", T: s.T, V: 1}, Step{Kind: "build", Build: &BuildOpts{Patterns: []string{"//..."}}},
					Step{Kind: "build", Build: &BuildOpts{Patterns: []string{"//..."}}})
			}
		}
		if k == "toggle-file" || (k == "edit-content" && rapid.IntRange(0, 3).Draw(t, "revert") == 0) {
			// "there and back again": S1 -> S2 -> S1 with builds in between, so that the last build is served an OLD entry
			back := s
			if k == "edit-content" {
				back = Step{Kind: "restore-content", T: s.T, F: s.F}
			}
			h.Steps = append(h.Steps, Step{Kind: "build", Build: genBuild(t, p, h.WS)}, back)
			if p.Minimal && rapid.IntRange(0, 2).Draw(t, "back-under-minimal") == 0 {
				// back at S1 the edited target is a (skipped) cache hit whose product in the workspace is still S2's: whatever
				// has to run on top of it under load_outputs=minimal must see S1's, and so must the default build afterwards
				h.Steps = append(h.Steps, Step{Kind: "bump-nonce", T: rapid.IntRange(0, 7).Draw(t, "t-above")},
					Step{Kind: "build", Build: &BuildOpts{Patterns: []string{"//..."}, LoadOutputs: "minimal"}}, Step{Kind: "build", Build: &BuildOpts{Patterns: []string{"//..."}}})
			} else {
				h.Steps = append(h.Steps, Step{Kind: "build", Build: genBuild(t, p, h.WS)})
				if rapid.IntRange(0, 2).Draw(t, "and-again") == 0 {
					// ... and once more: S1's outputs in the workspace now came out of the cache; S2's commands write over
					// them (some in place); the last build must still find S1's bytes in the cache
					all := &BuildOpts{Patterns: []string{"//..."}}
					again := s
					again.V = s.V + 3 // another content than the first time: this state has never been built, so its commands run
					h.Steps = append(h.Steps, again, Step{Kind: "build", Build: all}, back, Step{Kind: "build", Build: all})
				}
			}
		}
	}
	// histories end with a build so that the last edits are observed
	if h.Steps[len(h.Steps)-1].Kind != "build" {
		h.Steps = append(h.Steps, Step{Kind: "build", Build: genBuild(t, p, h.WS)})
	}
	return h
}

func genBuild(t *rapid.T, p Profile, w WS) *BuildOpts {
	o := &BuildOpts{Patterns: []string{"//..."}}
	if p.SubsetBuilds && rapid.IntRange(0, 3).Draw(t, "subset") == 0 {
		// a label of the initial workspace (targets are never removed; aliases only added)
		if len(w.Aliases) > 0 && rapid.Bool().Draw(t, "aliaslabel") {
			o.Patterns = []string{w.Aliases[rapid.IntRange(0, len(w.Aliases)-1).Draw(t, "ai")].Label()}
		} else {
			o.Patterns = []string{w.Targets[rapid.IntRange(0, len(w.Targets)-1).Draw(t, "ti")].Label()}
		}
	}
	if p.NoCacheBuild && rapid.IntRange(0, 3).Draw(t, "nocachebuild") == 0 {
		o.NoCache = true
	}
	if p.FailFast && rapid.IntRange(0, 2).Draw(t, "failfast") == 0 {
		o.FailFast = true
	}
	if p.Minimal && rapid.IntRange(0, 1).Draw(t, "minimal") == 0 {
		o.LoadOutputs = "minimal"
	}
	return o
}

func timeoutPct(p Profile) int {
	if p.TimeoutPct > 0 {
		return p.TimeoutPct
	}
	return 25
}
