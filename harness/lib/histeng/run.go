package histeng

import (
	"bytes"
	"context"
	"crypto/sha256"
	"fmt"
	"os"
	"os/exec"
	"os/signal"
	"path/filepath"
	"sort"
	"strings"
	"syscall"
	"time"
)

type Sandbox struct {
	Base, WS, Root, Home, ExtDir, Trace string
	Bin                                 string
	rendered                            map[string]string
	traceOff                            int64
	ExtraEnv                            []string
	// NoReap: do not kill what is left of the process group when grog exits (the interrupt check looks for survivors)
	NoReap bool
}

func NewSandbox(base, bin string) (*Sandbox, error) {
	return NewSandboxAt(base, filepath.Join(base, "ws"), bin)
}

// NewSandboxAt: a "machine" with its own cache root and home that works on the checkout at ws
// (two machines that share one workspace path share the remote cache namespace).
func NewSandboxAt(base, ws, bin string) (*Sandbox, error) {
	s := &Sandbox{Base: base, WS: ws, Root: filepath.Join(base, "root"), Home: filepath.Join(base, "home"),
		ExtDir: filepath.Join(base, "ext"), Trace: filepath.Join(base, "ext", "trace"), Bin: bin, rendered: map[string]string{}}
	for _, d := range []string{s.WS, s.Root, s.Home, s.ExtDir} {
		if err := os.MkdirAll(d, 0o755); err != nil {
			return nil, err
		}
	}
	return s, os.WriteFile(s.Trace, nil, 0o644)
}

// Relocate moves the checkout to a new path and moves its cache directory to the name grog derives from the new
// path (<sha256(path)[:16]>-<basename>): the same cache restored next to a checkout that lives somewhere else.
func (s *Sandbox) Relocate(newWS string) error {
	oldPrefix, newPrefix := cachePrefix(s.WS), cachePrefix(newWS)
	if err := os.MkdirAll(filepath.Dir(newWS), 0o755); err != nil {
		return err
	}
	if err := os.Rename(s.WS, newWS); err != nil {
		return err
	}
	if _, err := os.Stat(filepath.Join(s.Root, oldPrefix)); err == nil {
		_ = os.RemoveAll(filepath.Join(s.Root, newPrefix))
		if err := os.Rename(filepath.Join(s.Root, oldPrefix), filepath.Join(s.Root, newPrefix)); err != nil {
			return err
		}
	}
	s.WS = newWS
	return nil
}

func cachePrefix(ws string) string {
	sum := sha256.Sum256([]byte(ws))
	return fmt.Sprintf("%x", sum)[:16] + "-" + filepath.Base(ws)
}

// ForgetRendered makes the next Sync rewrite every file (another machine may have touched the shared checkout).
func (s *Sandbox) ForgetRendered() { s.rendered = map[string]string{} }

// WipeOutputs removes every declared output from the workspace (a fresh checkout has none).
func (s *Sandbox) WipeOutputs(w WS) {
	for i := range w.Targets {
		files, dirs := w.Targets[i].AllOutPaths()
		for _, p := range append(files, dirs...) {
			_ = os.RemoveAll(filepath.Join(s.WS, p))
		}
	}
}

// Sync writes the rendered workspace, removing previously rendered files that are gone. Outputs are never touched.
func (s *Sandbox) Sync(w WS) error {
	files := w.Render()
	for p := range s.rendered {
		if _, still := files[p]; !still {
			_ = os.Remove(filepath.Join(s.WS, p))
		}
	}
	for p, c := range files {
		if old, ok := s.rendered[p]; ok && old == c {
			continue
		}
		full := filepath.Join(s.WS, p)
		if err := os.MkdirAll(filepath.Dir(full), 0o755); err != nil {
			return err
		}
		// a perturbation may have left something else at this path
		if fi, err := os.Lstat(full); err == nil && fi.IsDir() {
			_ = os.RemoveAll(full)
		}
		if err := os.WriteFile(full, []byte(c), 0o644); err != nil {
			return err
		}
	}
	s.rendered = files
	return nil
}

// SyncExt materialises the external state (markers and switches).
func (s *Sandbox) SyncExt(e Ext) error {
	entries, _ := os.ReadDir(s.ExtDir)
	for _, en := range entries {
		if en.Name() != "trace" {
			_ = os.Remove(filepath.Join(s.ExtDir, en.Name()))
		}
	}
	w := func(name, content string) error {
		return os.WriteFile(filepath.Join(s.ExtDir, name), []byte(content), 0o644)
	}
	for k, v := range e.Markers {
		if err := w("marker."+k, v); err != nil {
			return err
		}
	}
	for k, v := range e.Fail {
		if v {
			_ = w("fail."+k, "")
		}
	}
	for k, v := range e.SlowSec {
		if v > 0 {
			_ = w("slow."+k, fmt.Sprint(v))
		}
	}
	for k, v := range e.SkipOut {
		_ = w(fmt.Sprintf("skipout.%s.%d", k, v), "")
	}
	for k, v := range e.NoEstab {
		if v {
			_ = w("noestablish."+k, "")
		}
	}
	for k, v := range e.WrongEst {
		if v {
			_ = w("wrongestablish."+k, "")
		}
	}
	for k, v := range e.SelfKill {
		if v {
			_ = w("selfkill."+k, "")
		}
	}
	for k, v := range e.Soft {
		if v {
			_ = w("softfail."+k, "")
		}
	}
	return nil
}

// ReadMarkers reads the marker files back (commands may have established some).
func (s *Sandbox) ReadMarkers() map[string]string {
	out := map[string]string{}
	entries, _ := os.ReadDir(s.ExtDir)
	for _, en := range entries {
		if strings.HasPrefix(en.Name(), "marker.") {
			b, _ := os.ReadFile(filepath.Join(s.ExtDir, en.Name()))
			out[strings.TrimPrefix(en.Name(), "marker.")] = string(b)
		}
	}
	return out
}

// A process started in the background of a non-interactive shell (`cmd &`) has SIGINT ignored, and an ignored signal
// stays ignored across exec: a grog child would then lose an interrupt that arrives before it has installed its own
// handler (seen once, on a machine so loaded that grog needed seconds to start). Catching the signals here makes every
// child start with the default disposition, as it would from a terminal. Nothing sends these signals to the harness.
func init() {
	ch := make(chan os.Signal, 1)
	signal.Notify(ch, os.Interrupt, syscall.SIGTERM)
	go func() {
		for range ch {
		}
	}()
}

type Result struct {
	Exit     int
	Out      string
	Lines    []string // trace lines appended by this invocation
	Started  map[string]int
	Ended    map[string]bool
	FailedT  map[string]bool
	Checks   map[string]int // K lines per label
	Wall     time.Duration
	TimedOut bool
	Order    []string // S/E events in order: "S label" / "E label"
	Pgid     int
}

// Env: the environment of a grog process of this sandbox (for callers that start processes themselves).
func (s *Sandbox) Env() []string { return s.env() }

func (s *Sandbox) env() []string {
	env := []string{"PATH=" + os.Getenv("PATH"), "HOME=" + s.Home, "GROG_ROOT=" + s.Root, "TRACE=" + s.Trace, "EXT=" + s.ExtDir,
		"TMPDIR=" + os.TempDir(), "LC_ALL=C", "NO_COLOR=1", "TERM=dumb"}
	return append(env, s.ExtraEnv...)
}

// Grog runs the binary in the workspace (cwd = workspace root joined with sub) with a hard cap.
func (s *Sandbox) Grog(sub string, cap time.Duration, args ...string) Result {
	return s.GrogWith(sub, cap, nil, args...)
}

// GrogWith additionally calls during(cmd) right after the process started (used to deliver signals).
func (s *Sandbox) GrogWith(sub string, cap time.Duration, during func(cmd *exec.Cmd), args ...string) Result {
	ctx, cancel := context.WithTimeout(context.Background(), cap)
	defer cancel()
	cmd := exec.CommandContext(ctx, s.Bin, args...)
	cmd.Dir = filepath.Join(s.WS, sub)
	cmd.Env = s.env()
	cmd.SysProcAttr = &syscall.SysProcAttr{Setpgid: true}
	cmd.Cancel = func() error { return syscall.Kill(-cmd.Process.Pid, syscall.SIGKILL) }
	var out bytes.Buffer
	cmd.Stdout = &out
	cmd.Stderr = &out
	start := time.Now()
	res := Result{Started: map[string]int{}, Ended: map[string]bool{}, FailedT: map[string]bool{}, Checks: map[string]int{}}
	if err := cmd.Start(); err != nil {
		res.Exit = -1
		res.Out = err.Error()
		return res
	}
	if during != nil {
		during(cmd)
	}
	err := cmd.Wait()
	res.Wall = time.Since(start)
	res.Out = out.String()
	if ctx.Err() != nil {
		res.TimedOut = true
	}
	if err != nil {
		if ee, ok := err.(*exec.ExitError); ok {
			res.Exit = ee.ExitCode()
		} else {
			res.Exit = -1
		}
	}
	res.Pgid = cmd.Process.Pid
	if !s.NoReap {
		// make sure nothing of the process group survives the invocation
		_ = syscall.Kill(-cmd.Process.Pid, syscall.SIGKILL)
	}
	s.readTrace(&res)
	return res
}

func (s *Sandbox) readTrace(res *Result) {
	data, err := os.ReadFile(s.Trace)
	if err != nil || int64(len(data)) < s.traceOff {
		return
	}
	chunk := string(data[s.traceOff:])
	s.traceOff = int64(len(data))
	for _, line := range strings.Split(chunk, "\n") {
		if line == "" {
			continue
		}
		res.Lines = append(res.Lines, line)
		parts := strings.SplitN(line, " ", 3)
		if len(parts) < 2 {
			continue
		}
		switch parts[0] {
		case "S":
			res.Started[parts[1]]++
			res.Order = append(res.Order, "S "+parts[1])
		case "E":
			res.Ended[parts[1]] = true
			res.Order = append(res.Order, "E "+parts[1])
		case "F":
			res.FailedT[parts[1]] = true
			res.Order = append(res.Order, "F "+parts[1])
		case "K":
			res.Checks[parts[1]]++
		}
	}
}

func buildArgs(o BuildOpts) []string {
	args := []string{"build"}
	if o.NoCache {
		args = append(args, "--enable-cache=false")
	}
	if o.FailFast {
		args = append(args, "--fail-fast")
	}
	if o.LoadOutputs != "" {
		args = append(args, "--load-outputs="+o.LoadOutputs)
	}
	return append(args, o.Patterns...)
}

func (s *Sandbox) Build(o BuildOpts, cap time.Duration) Result {
	return s.Grog("", cap, buildArgs(o)...)
}

// CompareOutputs checks the declared outputs of the given targets on disk against the expectation.
func (s *Sandbox) CompareOutputs(expect map[string]map[string]OutFile, labels []string) error {
	for _, l := range labels {
		paths := make([]string, 0, len(expect[l]))
		for p := range expect[l] {
			paths = append(paths, p)
		}
		sort.Strings(paths)
		dirRoots := []string{}
		for _, p := range paths {
			want := expect[l][p]
			full := filepath.Join(s.WS, p)
			fi, err := os.Lstat(full)
			if err != nil {
				return fmt.Errorf("%s: output %s missing: %v", l, p, err)
			}
			switch {
			case want.Dir:
				if !fi.IsDir() {
					return fmt.Errorf("%s: %s should be a directory", l, p)
				}
				dirRoots = append(dirRoots, p)
			case want.Link != "":
				tgt, err := os.Readlink(full)
				if err != nil || tgt != want.Link {
					return fmt.Errorf("%s: %s should be a symlink to %q, got %q (%v)", l, p, want.Link, tgt, err)
				}
			default:
				if !fi.Mode().IsRegular() {
					return fmt.Errorf("%s: %s should be a regular file, mode %v", l, p, fi.Mode())
				}
				data, err := os.ReadFile(full)
				if err != nil {
					return fmt.Errorf("%s: %s unreadable: %v", l, p, err)
				}
				if string(data) != want.Content {
					return fmt.Errorf("%s: output %s has wrong content:\n--- got\n%s\n--- want\n%s", l, p, clip(string(data)), clip(want.Content))
				}
				if (fi.Mode()&0o111 != 0) != want.Exec {
					return fmt.Errorf("%s: output %s executable=%v, want %v", l, p, fi.Mode()&0o111 != 0, want.Exec)
				}
			}
		}
		// nothing extra inside directory outputs
		for _, root := range dirRoots {
			isTop := true
			for _, other := range dirRoots {
				if other != root && strings.HasPrefix(root, other+"/") {
					isTop = false
				}
			}
			if !isTop {
				continue
			}
			var extra string
			_ = filepath.Walk(filepath.Join(s.WS, root), func(p string, info os.FileInfo, err error) error {
				if err != nil {
					return nil
				}
				rel, _ := filepath.Rel(s.WS, p)
				if _, ok := expect[l][rel]; !ok && extra == "" {
					extra = rel
				}
				return nil
			})
			if extra != "" {
				return fmt.Errorf("%s: unexpected entry %s inside directory output %s", l, extra, root)
			}
		}
	}
	return nil
}

func clip(s string) string {
	if len(s) > 700 {
		return s[:700] + "…"
	}
	return s
}

// WipeCas deletes every blob of the content-addressed store (target results stay) and every declared
// output in the workspace, so that each restore has to fail.
func (s *Sandbox) WipeCas(w WS) {
	for _, c := range s.CacheDirs() {
		_ = os.RemoveAll(filepath.Join(c, "cas"))
	}
	for i := range w.Targets {
		files, dirs := w.Targets[i].AllOutPaths()
		for _, p := range append(files, dirs...) {
			_ = os.RemoveAll(filepath.Join(s.WS, p))
		}
	}
}

// CacheDir returns the workspace cache directory of this sandbox ($GROG_ROOT/<sha256(ws)[:16]>-<base>/cache).
func (s *Sandbox) CacheDirs() []string {
	matches, _ := filepath.Glob(filepath.Join(s.Root, "*", "cache"))
	return matches
}
