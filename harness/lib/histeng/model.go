package histeng

import (
	"sort"
	"time"
)

// Verdict of the reference model for one selected target of one build.
type Verdict int

const (
	MustNot Verdict = iota // a valid successful result is cached and nothing forces execution: the command must not run
	Must                   // no usable result / forced: the command must run
	May                    // the properties do not say (entries written while caching was off, after faults, fail-fast races)
	Skip                   // a transitive dependency failed: must not run
)

func (v Verdict) String() string { return [...]string{"MUST-NOT", "MUST", "MAY", "SKIP"}[v] }

type BuildOpts struct {
	Patterns    []string `json:"patterns"` // "//..." or labels of targets / aliases
	NoCache     bool     `json:"disable_cache,omitempty"`
	FailFast    bool     `json:"fail_fast,omitempty"`
	LoadOutputs string   `json:"load_outputs,omitempty"` // "" = all
}

// External state that lives outside the workspace (never an input of any target).
type Ext struct {
	Markers map[string]string `json:"markers"`  // marker id -> content
	Fail    map[string]bool   `json:"fail"`     // target id -> command exits non-zero
	SlowSec map[string]int    `json:"slow"`     // target id -> extra sleep seconds (for timeouts)
	SkipOut map[string]int    `json:"skip_out"` // target id -> index of the file output the command does not produce
	NoEstab map[string]bool   `json:"no_establish"`
	// WrongEst: marker id -> the command writes content the check rejects
	WrongEst map[string]bool `json:"wrong_establish"`
	// SelfKill: target id -> the command's shell dies from a SIGKILL it sends itself
	SelfKill map[string]bool `json:"self_kill"`
	// Soft: target id -> the command runs to its end and then fails through a final `a && b` list whose left side is
	// false (a non-zero status that does not trip `set -e`)
	Soft map[string]bool `json:"soft_fail,omitempty"`
}

func NewExt() Ext {
	return Ext{Markers: map[string]string{}, Fail: map[string]bool{}, SlowSec: map[string]int{}, SkipOut: map[string]int{}, NoEstab: map[string]bool{}, WrongEst: map[string]bool{}, SelfKill: map[string]bool{}, Soft: map[string]bool{}}
}

// tolerateModeSwitch: until the fix "compute the same output hash whether or not a target's result is cached" the
// model recognised the (then listed) finding C13:dependants-rebuilt-after-cache-mode-switch and let histories continue
// behind it. The finding is repaired; the recognition is switched off so that a regression is a plain violation again.
const tolerateModeSwitch = false

type Model struct {
	Cache  map[string]string // abstract key (strict and loose) -> "good" | "may"
	Taint  map[string]bool   // label
	Ext    Ext
	Faulty bool // cache faults were injected at some point of this history
	// LastMode: how each target was last executed: "c" (result cached) or "nc" (no-cache tag / cache disabled).
	LastMode map[string]string
	// EntryDepModes: for each strict key, the LastMode of every direct dependency when the entry was written.
	EntryDepModes map[string]map[string]string
}

func NewModel() *Model {
	return &Model{Cache: map[string]string{}, Taint: map[string]bool{}, Ext: NewExt(), LastMode: map[string]string{}, EntryDepModes: map[string]map[string]string{}}
}

type Prediction struct {
	Selected  []string // selected target labels in dependency order
	Verdict   map[string]Verdict
	WillFail  map[string]bool   // the command (or its post-conditions) fails if it executes
	ChecksBad map[string]bool   // an output check fails before the cache decision
	Keys      map[string]string // strict keys
	Loose     map[string]string
	// ModeSwitch: a direct dependency is (re-)executed in this build in a different cache mode (cached <-> no-cache /
	// cache disabled) than when the target's entry was written. Known finding C13:dependants-rebuilt-after-cache-mode-switch.
	ModeSwitch map[string]bool
	Faulted    bool // cache faults were injected earlier in this history (the "absent cache faults" clauses do not apply)
	AnyFail    bool // some MUST target fails => exit != 0 (exact when there is no May in play)
	Uncertain  bool // verdicts contain May for reasons that make the exit status unknowable
}

// Select computes the selected targets (closure through aliases), dependency order.
func Select(w WS, patterns []string) []string {
	var seeds []string
	for _, p := range patterns {
		if p == "//..." {
			for _, t := range w.Targets {
				seeds = append(seeds, t.Label())
			}
			for _, a := range w.Aliases {
				seeds = append(seeds, a.Label())
			}
		} else {
			seeds = append(seeds, p)
		}
	}
	cl := w.Closure(seeds)
	var out []string
	for _, l := range w.TopoOrder() {
		if cl[l] {
			out = append(out, l)
		}
	}
	return out
}

func checkPasses(ext Ext, c Check) bool {
	content, ok := ext.Markers[c.Marker]
	if !ok {
		return false
	}
	return c.Expected == "" || trimSpace(content) == trimSpace(c.Expected)
}

func trimSpace(s string) string {
	for len(s) > 0 && (s[0] == ' ' || s[0] == '\n' || s[0] == '\t') {
		s = s[1:]
	}
	for len(s) > 0 && (s[len(s)-1] == ' ' || s[len(s)-1] == '\n' || s[len(s)-1] == '\t') {
		s = s[:len(s)-1]
	}
	return s
}

// executionFails: would executing t fail (exit status, timeout, missing output, checks after execution)?
// It also returns the marker updates the command performs before any failure point.
func executionFails(t *Target, ext Ext) (fails bool, markers map[string]string) {
	markers = map[string]string{}
	if t.NoCommand {
		return false, markers
	}
	id := t.ID()
	if t.Timeout != "" {
		if d, err := time.ParseDuration(t.Timeout); err == nil {
			total := time.Duration(ext.SlowSec[id])*time.Second + time.Duration(t.SlowMs)*time.Millisecond
			if total >= d {
				return true, markers
			}
		}
	}
	if ext.SelfKill[id] || ext.Fail[id] || ext.Soft[id] {
		return true, markers
	}
	// the command runs to completion: markers are established
	for _, c := range t.Checks {
		if c.Establish && ext.WrongEst[c.Marker] {
			markers[c.Marker] = "not-what-the-check-wants"
			if c.Expected == "" {
				// an existence check is satisfied by any content
			}
		} else if c.Establish && !ext.NoEstab[c.Marker] {
			content := c.Expected
			if content == "" {
				content = "ok"
			}
			markers[c.Marker] = content
		}
	}
	if k, ok := ext.SkipOut[id]; ok && k < len(t.OutFiles) {
		return true, markers
	}
	after := Ext{Markers: map[string]string{}}
	for k, v := range ext.Markers {
		after.Markers[k] = v
	}
	for k, v := range markers {
		after.Markers[k] = v
	}
	for _, c := range t.Checks {
		if !checkPasses(after, c) {
			return true, markers
		}
	}
	return false, markers
}

// Predict evaluates the model for one build without changing it.
func (m *Model) Predict(w WS, o BuildOpts) Prediction {
	p := Prediction{Verdict: map[string]Verdict{}, WillFail: map[string]bool{}, ChecksBad: map[string]bool{}, ModeSwitch: map[string]bool{}}
	p.Keys, p.Loose = w.Keys()
	p.Faulted = m.Faulty
	p.Selected = Select(w, o.Patterns)
	willRunMode := map[string]string{} // targets that certainly or possibly execute in this build -> their mode
	failed := map[string]bool{}        // failed or skipped
	maybeFailed := map[string]bool{}
	// markers evolve during the build as commands establish them; checks of later targets see them
	ext := m.Ext
	markers := map[string]string{}
	for k, v := range ext.Markers {
		markers[k] = v
	}
	ext.Markers = markers
	for _, l := range p.Selected {
		t := w.Target(l)
		blocked, maybeBlocked := false, false
		for _, d := range w.DirectDeps(t) {
			if failed[d] {
				blocked = true
			}
			if maybeFailed[d] {
				maybeBlocked = true
			}
		}
		if blocked {
			p.Verdict[l] = Skip
			failed[l] = true
			continue
		}
		checksBad := false
		for _, c := range t.Checks {
			if !checkPasses(ext, c) {
				checksBad = true
			}
		}
		p.ChecksBad[l] = checksBad
		forced := o.NoCache || t.NoCache() || m.Taint[l] || checksBad
		entry := m.Cache[p.Keys[l]]
		var v Verdict
		switch {
		case forced:
			v = Must
		case entry == "good":
			v = MustNot
		case m.Cache[p.Loose[l]] == "":
			v = Must // not even the state without output-less dependencies has been built before
		default:
			v = May
		}
		if tolerateModeSwitch {
			// (computed for every verdict: a forced target's change hash is affected as well, and if it is
			// output-less it passes the effect on to its own dependants)
			for _, d := range w.DirectDeps(t) {
				if mode, runs := willRunMode[d]; runs && m.EntryDepModes[p.Keys[l]][d] != "" && m.EntryDepModes[p.Keys[l]][d] != mode {
					p.ModeSwitch[l] = true
				}
				// ... or was executed in the other mode since (its entry was overwritten with the other formula)
				if was := m.EntryDepModes[p.Keys[l]][d]; was != "" && m.LastMode[d] != "" && m.LastMode[d] != was {
					p.ModeSwitch[l] = true
				}
				// an output-less dependency exposes its own change hash, so the effect travels through it
				if p.ModeSwitch[d] && !w.Target(d).HasOutputs() {
					p.ModeSwitch[l] = true
				}
			}
		}
		if v != MustNot {
			mode := "c"
			if o.NoCache || t.NoCache() {
				mode = "nc"
			}
			willRunMode[l] = mode
		}
		if maybeBlocked {
			v = May
			p.Uncertain = true
			maybeFailed[l] = true // possibly skipped: its own dependants inherit the doubt
		}
		if t.NoCommand {
			v = May // nothing observable happens for a grouping target
		}
		p.Verdict[l] = v
		fails, established := executionFails(t, ext)
		p.WillFail[l] = fails
		switch v {
		case Must:
			for k, val := range established {
				ext.Markers[k] = val
			}
			if fails {
				failed[l] = true
				p.AnyFail = true
			}
		case May:
			if fails {
				maybeFailed[l] = true
				p.Uncertain = true
			}
			if len(established) > 0 {
				p.Uncertain = true
			}
		case MustNot:
			if p.ModeSwitch[l] && (fails || len(established) > 0) {
				// known finding: it may run after all; whether the build then fails is not predictable
				maybeFailed[l] = fails
				p.Uncertain = true
			}
		}
	}
	if o.FailFast && p.AnyFail {
		p.Uncertain = true
	}
	return p
}

// Commit updates the model after a build, given which targets were observed to
// start (S line) and to end (E line) in the trace and whether grog exited normally.
func (m *Model) Commit(w WS, o BuildOpts, p Prediction, started, ended map[string]bool, interrupted bool) {
	// under --fail-fast a possible failure (a MAY target that fails if it runs) is a possible cancellation of everybody else
	cancelled := interrupted || (o.FailFast && (p.AnyFail || p.Uncertain))
	for _, l := range p.Selected {
		t := w.Target(l)
		k := p.Keys[l]
		if !started[l] {
			continue
		}
		fails, established := executionFails(t, m.Ext)
		if ended[l] {
			// the command body ran to its end: markers were established
			for mk, val := range established {
				m.Ext.Markers[mk] = val
			}
		}
		switch {
		case cancelled:
			// a result may or may not have been written (and a taint consumed) before grog stopped
			if !fails && ended[l] {
				m.Cache[k] = "may"
				m.Cache[p.Loose[l]] = "may"
				delete(m.Taint, l)
			}
		case fails || !ended[l]:
			// failed executions record nothing; an existing entry for this key stays as it was
		case (p.Verdict[l] == May && (o.LoadOutputs == "minimal" || m.Faulty)) || p.ModeSwitch[l] || depUncertain(w, t, p):
			// (a MAY target that ran in a fault-free load_outputs=all build ran at its own node with its current change hash:
			// the entry it wrote is as good as any, see the default case)
			// it ran, but the model does not know through which path (own node, or re-run on behalf of a
			// dependant under load_outputs=minimal with a change hash derived from an older dependency state)
			m.Cache[k] = "may"
			m.Cache[p.Loose[l]] = "may"
			if o.NoCache || t.NoCache() {
				m.LastMode[l] = "nc"
			} else {
				m.LastMode[l] = "c"
			}
			delete(m.Taint, l)
		case o.NoCache || t.NoCache():
			m.Cache[k] = "may"
			m.Cache[p.Loose[l]] = "may"
			m.LastMode[l] = "nc"
			delete(m.Taint, l)
		default:
			m.Cache[k] = "good"
			m.Cache[p.Loose[l]] = "good"
			m.LastMode[l] = "c"
			modes := map[string]string{}
			for _, d := range w.DirectDeps(t) {
				modes[d] = m.LastMode[d]
			}
			m.EntryDepModes[k] = modes
			delete(m.Taint, l)
		}
	}
	if cancelled {
		return
	}
}

// depUncertain: a direct dependency was used from (or re-run on top of) an entry of unknown provenance, so the
// change hash under which t's own result was stored is unknown too.
func depUncertain(w WS, t *Target, p Prediction) bool {
	for _, d := range w.DirectDeps(t) {
		if outUncertain(w, d, p, 0) {
			return true
		}
	}
	return false
}

// outUncertain: the output hash that dependants of l saw in this build is not known to the model. An output-less
// target exposes its own change hash, so the doubt about its dependencies travels through it.
func outUncertain(w WS, l string, p Prediction, depth int) bool {
	if p.Verdict[l] == May || p.ModeSwitch[l] {
		return true
	}
	t := w.Target(l)
	if t == nil || t.HasOutputs() || depth > 50 {
		return false
	}
	for _, d := range w.DirectDeps(t) {
		if outUncertain(w, d, p, depth+1) {
			return true
		}
	}
	return false
}

// CacheFault records that cache objects were destroyed behind grog's back: every entry may or may not be usable.
func (m *Model) CacheFault() {
	m.Faulty = true
	for k, v := range m.Cache {
		if v == "good" {
			m.Cache[k] = "may"
		}
	}
}

// Cleaned: `grog clean` removed the workspace's cache directory (results, blobs, taint markers): nothing can be a hit.
func (m *Model) Cleaned() {
	m.Cache = map[string]string{}
	m.Taint = map[string]bool{}
	m.EntryDepModes = map[string]map[string]string{}
}

func SortedKeys(m map[string]bool) []string {
	var ks []string
	for k, v := range m {
		if v {
			ks = append(ks, k)
		}
	}
	sort.Strings(ks)
	return ks
}
