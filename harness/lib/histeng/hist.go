package histeng

import (
	"fmt"
	"os"
	"path"
	"path/filepath"
	"sort"
	"strings"
)

// Step is one element of a history. Indices (T, F, V) are resolved modulo the
// number of candidates at apply time, so that any shrunk history stays valid.
type Step struct {
	Kind  string     `json:"kind"`
	T     int        `json:"t,omitempty"`
	F     int        `json:"f,omitempty"`
	V     int        `json:"v,omitempty"`
	Build *BuildOpts `json:"build,omitempty"`
}

type History struct {
	WS    WS     `json:"workspace"`
	Steps []Step `json:"steps"`
}

var contentPool = []string{"", "x", "xy", "A\n", "B", "same", "same", "line1\nline2", "== fake.txt\nz"}

func (w *WS) target(i int) *Target {
	if len(w.Targets) == 0 {
		return nil
	}
	if i < 0 {
		i = -i
	}
	return &w.Targets[i%len(w.Targets)]
}

func pickStr(xs []string, i int) string {
	if i < 0 {
		i = -i
	}
	return xs[i%len(xs)]
}

// globDirs returns package-relative directories in which adding a *.txt file changes t's resolved inputs.
func globDirs(t *Target) []string {
	var dirs []string
	for _, p := range t.Inputs {
		switch {
		case strings.Contains(p, "**/"):
			d := strings.TrimSuffix(p[:strings.Index(p, "**/")], "/")
			dirs = append(dirs, d, path.Join(d, "deep"))
		case strings.ContainsAny(p, "*?["):
			dirs = append(dirs, path.Dir(p))
		}
	}
	return dirs
}

// ApplyEdit applies an abstract edit to the workspace. It returns a short
// description ("" when the step did not apply to this state).
func ApplyEdit(w *WS, s Step) string {
	t := w.target(s.T)
	if t == nil {
		return ""
	}
	inputs := w.ResolvedInputs(t)
	full := func(rel string) string { return path.Join(t.Pkg, rel) }
	switch s.Kind {
	case "edit-content":
		if len(inputs) == 0 {
			return ""
		}
		f := full(pickStr(inputs, s.F))
		nc := pickStr(contentPool, s.V)
		if w.Files[f] == nc {
			nc += "!"
		}
		if w.Previous == nil {
			w.Previous = map[string]string{}
		}
		w.Previous[f] = w.Files[f]
		w.Files[f] = nc
		return "edit " + f
	case "restore-content":
		if len(inputs) == 0 {
			return ""
		}
		f := full(pickStr(inputs, s.F))
		old, ok := w.Previous[f]
		if !ok || old == w.Files[f] {
			return ""
		}
		w.Files[f] = old
		return "revert " + f
	case "shift-boundary":
		if len(inputs) < 2 {
			return ""
		}
		i := s.F
		if i < 0 {
			i = -i
		}
		i %= len(inputs) - 1
		a, b := full(inputs[i]), full(inputs[i+1])
		src := w.Files[a]
		if src == "" {
			src = "pq"
			w.Files[a] = src // an ordinary edit first; the shift follows in the same step
		}
		k := 1 + (abs(s.V) % len(src))
		w.Files[a] = src[:len(src)-k]
		w.Files[b] = src[len(src)-k:] + w.Files[b]
		return fmt.Sprintf("shift %d bytes %s -> %s", k, a, b)
	case "swap-contents":
		if len(inputs) < 2 {
			return ""
		}
		a, b := full(pickStr(inputs, s.F)), full(pickStr(inputs, s.F+1+abs(s.V)%(len(inputs)-1)))
		if w.Files[a] == w.Files[b] {
			return ""
		}
		w.Files[a], w.Files[b] = w.Files[b], w.Files[a]
		return "swap " + a + " " + b
	case "add-file":
		dirs := globDirs(t)
		if len(dirs) == 0 {
			return ""
		}
		name := full(path.Join(pickStr(dirs, s.F), pickStr([]string{"n1.txt", "n2.txt", "a0.txt", "zz.txt"}, s.V)))
		if _, exists := w.Files[name]; exists {
			return ""
		}
		w.Files[name] = pickStr(contentPool, s.V+s.F)
		return "add " + name
	case "toggle-file":
		dirs := globDirs(t)
		if len(dirs) == 0 {
			return ""
		}
		name := full(path.Join(pickStr(dirs, s.F), "toggle.txt"))
		if _, exists := w.Files[name]; exists {
			delete(w.Files, name)
			return "toggle off " + name
		}
		w.Files[name] = "toggled"
		return "toggle on " + name
	case "remove-file":
		if len(inputs) == 0 {
			return ""
		}
		f := full(pickStr(inputs, s.F))
		delete(w.Files, f)
		return "remove " + f
	case "rename-file":
		if len(inputs) == 0 {
			return ""
		}
		rel := pickStr(inputs, s.F)
		if !strings.HasSuffix(rel, ".txt") || path.Dir(rel) == "." {
			return ""
		}
		nn := path.Join(path.Dir(rel), pickStr([]string{"r1.txt", "r2.txt", "b9.txt"}, s.V))
		if _, exists := w.Files[full(nn)]; exists {
			return ""
		}
		w.Files[full(nn)] = w.Files[full(rel)]
		delete(w.Files, full(rel))
		return "rename " + full(rel) + " -> " + full(nn)
	case "toggle-execbit":
		if len(t.OutFiles) == 0 {
			return ""
		}
		t.ExecBit = !t.ExecBit
		return fmt.Sprintf("execbit %s=%v", t.Label(), t.ExecBit)
	case "swap-output-roles":
		for k := 0; k < len(w.Targets); k++ {
			cand := w.target(s.T + k)
			if len(cand.OutFiles) >= 2 {
				cand.SwapOuts = !cand.SwapOuts
				return fmt.Sprintf("swap-outputs %s=%v", cand.Label(), cand.SwapOuts)
			}
		}
		return ""
	case "bump-nonce":
		t.Nonce++
		return "nonce " + t.Label()
	case "edit-fingerprint":
		if t.Fingerprint == nil {
			t.Fingerprint = map[string]string{}
		}
		k := pickStr([]string{"v", "a", "a=b"}, s.F)
		v := pickStr([]string{"1", "2", "b=c", "c", ""}, s.V)
		if old, ok := t.Fingerprint[k]; ok && old == v {
			delete(t.Fingerprint, k)
			return "fingerprint -" + k
		}
		t.Fingerprint[k] = v
		return "fingerprint " + k + "=" + v
	case "rename-output":
		if len(t.OutFiles) == 0 {
			return ""
		}
		nn := fmt.Sprintf("%s/%s.v%d.txt", pickStr([]string{"out", "gen/deep", "."}, s.F), t.Name, abs(s.V)%3)
		if t.OutFiles[0] == nn {
			return ""
		}
		t.OutFiles[0] = nn
		return "rename-output " + t.Label() + " " + nn
	case "add-edge", "add-edge-alias":
		// only to a target earlier in the list: keeps the graph acyclic
		idx := abs(s.T) % len(w.Targets)
		if idx == 0 {
			return ""
		}
		dep := &w.Targets[abs(s.F)%idx]
		for _, d := range w.DirectDeps(t) {
			if d == dep.Label() {
				return ""
			}
		}
		l := dep.Label()
		if s.Kind == "add-edge-alias" {
			a := Alias{Pkg: t.Pkg, Name: fmt.Sprintf("al%d", len(w.Aliases)), Actual: l}
			w.Aliases = append(w.Aliases, a)
			l = a.Label()
		}
		t.Deps = append(t.Deps, l)
		return "edge " + t.Label() + " -> " + l
	case "remove-edge":
		if len(t.Deps) == 0 {
			return ""
		}
		i := abs(s.F) % len(t.Deps)
		d := t.Deps[i]
		t.Deps = append(append([]string{}, t.Deps[:i]...), t.Deps[i+1:]...)
		return "unedge " + t.Label() + " -> " + d
	case "reroute-alias":
		// replace a direct declared dependency by an alias pointing at it
		for i, d := range t.Deps {
			if w.Target(d) != nil {
				a := Alias{Pkg: pickStr([]string{t.Pkg, w.Target(d).Pkg}, s.V), Name: fmt.Sprintf("al%d", len(w.Aliases)), Actual: d}
				w.Aliases = append(w.Aliases, a)
				t.Deps[i] = a.Label()
				return "reroute " + t.Label() + " via " + a.Label()
			}
		}
		return ""
	case "retarget-alias":
		if len(w.Aliases) == 0 {
			return ""
		}
		a := &w.Aliases[abs(s.F)%len(w.Aliases)]
		// new actual must come before every target that (transitively) uses the alias
		minUser := len(w.Targets)
		for i := range w.Targets {
			if w.Closure([]string{w.Targets[i].Label()})[a.Label()] && i < minUser {
				minUser = i
			}
		}
		if minUser == 0 {
			return ""
		}
		na := w.Targets[abs(s.V)%minUser].Label()
		if na == a.Actual || w.Resolve(a.Actual) == na {
			return ""
		}
		a.Actual = na
		return "retarget " + a.Label() + " -> " + na
	case "toggle-nocache":
		for i, tag := range t.Tags {
			if tag == "no-cache" {
				t.Tags = append(append([]string{}, t.Tags[:i]...), t.Tags[i+1:]...)
				return "cacheable " + t.Label()
			}
		}
		t.Tags = append(t.Tags, "no-cache")
		return "no-cache " + t.Label()
	}
	return ""
}

func abs(i int) int {
	if i < 0 {
		return -i
	}
	return i
}

// ApplyExt applies a step that changes the external state (switches and markers).
func ApplyExt(w *WS, e *Ext, s Step) string {
	t := w.target(s.T)
	if t == nil {
		return ""
	}
	if t.NoCommand && s.Kind != "clear-switches" {
		return "" // the switches act inside commands
	}
	id := t.ID()
	switch s.Kind {
	case "set-fail":
		if e.Fail[id] {
			return ""
		}
		e.Fail[id] = true
		return "fail " + t.Label()
	case "clear-switches":
		if len(e.Fail)+len(e.SlowSec)+len(e.SkipOut)+len(e.SelfKill)+len(e.WrongEst)+len(e.Soft) == 0 {
			return ""
		}
		e.Fail, e.SlowSec, e.SkipOut, e.SelfKill, e.WrongEst, e.Soft = map[string]bool{}, map[string]int{}, map[string]int{}, map[string]bool{}, map[string]bool{}, map[string]bool{}
		return "clear switches"
	case "set-softfail":
		if e.Soft == nil {
			e.Soft = map[string]bool{}
		}
		if e.Soft[id] {
			return ""
		}
		e.Soft[id] = true
		return "softfail " + t.Label()
	case "set-selfkill":
		if e.SelfKill[id] {
			return ""
		}
		e.SelfKill[id] = true
		return "selfkill " + t.Label()
	case "set-wrongestablish":
		if len(t.Checks) == 0 {
			return ""
		}
		c := t.Checks[abs(s.F)%len(t.Checks)]
		if !c.Establish || c.Expected == "" || e.WrongEst[c.Marker] {
			return ""
		}
		e.WrongEst[c.Marker] = true
		return "wrongestablish " + c.Marker
	case "set-slow":
		// the next target (from s.T) that declares a timeout and is not slow yet
		for k := 0; k < len(w.Targets); k++ {
			if cand := w.target(s.T + k); cand.Timeout != "" && e.SlowSec[cand.ID()] == 0 {
				t, id = cand, cand.ID()
				break
			}
		}
		if t.Timeout == "" || e.SlowSec[id] > 0 {
			return ""
		}
		e.SlowSec[id] = 40
		return "slow " + t.Label()
	case "set-skipout":
		// prefer a target with several outputs: a missing output that is not the last one declared is the interesting case
		for k := 0; k < len(w.Targets); k++ {
			cand := w.target(s.T + k)
			if len(cand.OutFiles) > 0 && len(cand.OutFiles)+len(cand.OutDirs) >= 2 {
				t, id = cand, cand.ID()
				break
			}
		}
		if len(t.OutFiles) == 0 {
			return ""
		}
		if _, ok := e.SkipOut[id]; ok {
			return ""
		}
		e.SkipOut[id] = abs(s.F) % len(t.OutFiles)
		return fmt.Sprintf("skipout %s #%d", t.Label(), e.SkipOut[id])
	case "clear-marker":
		if len(t.Checks) == 0 {
			return ""
		}
		c := t.Checks[abs(s.F)%len(t.Checks)]
		if _, ok := e.Markers[c.Marker]; !ok {
			return ""
		}
		delete(e.Markers, c.Marker)
		return "clear-marker " + c.Marker
	case "set-marker":
		if len(t.Checks) == 0 {
			return ""
		}
		c := t.Checks[abs(s.F)%len(t.Checks)]
		content := c.Expected
		if content == "" {
			content = "ok"
		}
		if abs(s.V)%3 == 0 && c.Expected != "" {
			content = "wrong"
		}
		if e.Markers[c.Marker] == content {
			return ""
		}
		e.Markers[c.Marker] = content
		return "set-marker " + c.Marker + "=" + content
	case "toggle-noestablish":
		if len(t.Checks) == 0 {
			return ""
		}
		c := t.Checks[abs(s.F)%len(t.Checks)]
		if !c.Establish {
			return ""
		}
		e.NoEstab[c.Marker] = !e.NoEstab[c.Marker]
		return fmt.Sprintf("noestablish %s=%v", c.Marker, e.NoEstab[c.Marker])
	}
	return ""
}

// Perturb puts the workspace copy of one declared output of a target into another state
// (the cache is untouched). Returns "" if it did not apply.
func (s *Sandbox) Perturb(w *WS, st Step) string {
	t := w.target(st.T)
	if t == nil || !t.HasOutputs() {
		return ""
	}
	files, dirs := t.AllOutPaths()
	all := append(append([]string{}, files...), dirs...)
	sort.Strings(all)
	p := pickStr(all, st.F)
	isDir := false
	for _, d := range dirs {
		if d == p {
			isDir = true
		}
	}
	full := filepath.Join(s.WS, p)
	if _, err := os.Lstat(full); err != nil && st.Kind != "perturb-delete-parent" {
		return ""
	}
	if fi, err := os.Lstat(full); err == nil && fi.Mode()&os.ModeSymlink != 0 && st.Kind != "perturb-delete" && st.Kind != "perturb-delete-parent" {
		return "" // an earlier perturbation left a link to the outside here: the harness itself must not write through it
	}
	firstFile := func() string {
		if !isDir {
			return full
		}
		return filepath.Join(full, "main.txt")
	}
	switch st.Kind {
	case "perturb-delete":
		_ = os.RemoveAll(full)
		return "delete " + p
	case "perturb-delete-parent":
		parent := path.Dir(p)
		if parent == "." || parent == t.Pkg || parent == "" {
			return ""
		}
		// never delete a directory that holds sources
		for f := range w.Files {
			if strings.HasPrefix(f, parent+"/") {
				return ""
			}
		}
		_ = os.RemoveAll(filepath.Join(s.WS, parent))
		return "delete-parent " + parent
	case "perturb-truncate":
		f := firstFile()
		data, err := os.ReadFile(f)
		if err != nil || len(data) == 0 {
			return ""
		}
		_ = os.WriteFile(f, data[:len(data)/2], 0o644)
		return "truncate " + p
	case "perturb-overwrite":
		f := firstFile()
		if _, err := os.Stat(f); err != nil {
			return ""
		}
		_ = os.WriteFile(f, []byte("OVERWRITTEN BY SOMEBODY ELSE, AND LONGER THAN BEFORE ......................................"), 0o644)
		return "overwrite " + p
	case "perturb-chmod":
		f := firstFile()
		fi, err := os.Stat(f)
		if err != nil {
			return ""
		}
		_ = os.Chmod(f, fi.Mode().Perm()^0o111)
		return "chmod " + p
	case "perturb-stale-entry":
		if !isDir {
			return ""
		}
		_ = os.MkdirAll(filepath.Join(full, "stale-dir"), 0o755)
		_ = os.WriteFile(filepath.Join(full, "stale-dir", "junk.txt"), []byte("junk"), 0o644)
		return "stale-entry " + p
	case "perturb-file-for-dir":
		if !isDir {
			return ""
		}
		_ = os.RemoveAll(full)
		_ = os.WriteFile(full, []byte("a file"), 0o644)
		return "file-for-dir " + p
	case "perturb-dir-for-file":
		if isDir {
			return ""
		}
		_ = os.RemoveAll(full)
		_ = os.MkdirAll(filepath.Join(full, "sub"), 0o755)
		_ = os.WriteFile(filepath.Join(full, "sub", "junk"), []byte("junk"), 0o644)
		return "dir-for-file " + p
	case "perturb-symlink":
		// the output is replaced by a link to something outside the workspace, which must survive whatever grog does next
		outside := filepath.Join(s.Base, "outside")
		_ = os.MkdirAll(filepath.Join(outside, "victim-dir"), 0o755)
		_ = os.WriteFile(filepath.Join(outside, "victim.txt"), []byte(VictimContent), 0o644)
		_ = os.WriteFile(filepath.Join(outside, "victim-dir", "keep"), []byte(VictimContent), 0o644)
		_ = os.RemoveAll(full)
		if isDir {
			_ = os.Symlink(filepath.Join(outside, "victim-dir"), full)
		} else {
			_ = os.Symlink(filepath.Join(outside, "victim.txt"), full)
		}
		return "symlink-to-outside " + p
	case "perturb-touch-sources":
		return ""
	}
	return ""
}

const VictimContent = "not part of the workspace - must survive"

// VictimsIntact reports what happened to the files outside the workspace that perturb-symlink links to ("" = intact).
func (s *Sandbox) VictimsIntact() string {
	outside := filepath.Join(s.Base, "outside")
	if _, err := os.Stat(outside); err != nil {
		return ""
	}
	for _, f := range []string{"victim.txt", "victim-dir/keep"} {
		b, err := os.ReadFile(filepath.Join(outside, f))
		if err != nil || string(b) != VictimContent {
			return fmt.Sprintf("%s (outside the workspace) was modified or removed: now %q, err %v", f, clipStr(string(b)), err)
		}
	}
	if entries, _ := os.ReadDir(filepath.Join(outside, "victim-dir")); len(entries) != 1 {
		return fmt.Sprintf("the directory outside the workspace now has %d entries", len(entries))
	}
	return ""
}

func clipStr(s string) string {
	if len(s) > 80 {
		return s[:80] + "…"
	}
	return s
}
