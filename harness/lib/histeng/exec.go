package histeng

import (
	"fmt"
	"os"
	"os/exec"
	"path/filepath"
	"regexp"
	"strings"
	"syscall"
	"time"

	"grog/verif/lib/audit"
	"grog/verif/lib/pbt"
)

type Observation struct {
	Known      map[string]int // hits of listed known findings (the history continues behind them)
	Classes    map[string]bool
	Builds     int
	NonTrivial map[string]bool // per-property non-triviality facts
	Log        []string
}

type Oracles struct {
	FreshCompareEvery int  // every n-th successful build is compared with a from-scratch build (0 = never)
	Lockstep          bool // C15: play the same history with load_outputs=minimal in a second sandbox
	Audit             bool // C07: audit the cache directory after every grog invocation
}

var crashRe = regexp.MustCompile(`(?m)^(panic:|fatal error:|goroutine \d+ \[)`)

const buildCap = 120 * time.Second

func sig(prop, what string) string { return prop + ":" + what }

// checkBuild runs the oracles of one build.
func checkBuild(w WS, o BuildOpts, p Prediction, res Result, sb *Sandbox, expect map[string]map[string]OutFile, obs *Observation) error {
	tail := func() string {
		out := res.Out
		if len(out) > 1500 {
			out = "…" + out[len(out)-1500:]
		}
		return fmt.Sprintf("\nbuild args: %v\nexit=%d wall=%v\ntrace: %v\n--- grog output\n%s", buildArgs(o), res.Exit, res.Wall.Round(time.Millisecond), res.Lines, out)
	}
	if res.TimedOut {
		return pbt.Fail(sig("C04", "build-did-not-terminate"), "grog build did not exit within %v%s", buildCap, tail())
	}
	if crashRe.MatchString(res.Out) || res.Exit < 0 || res.Exit > 125 {
		return pbt.Fail(sig("C04", "internal-crash"), "grog died abnormally%s", tail())
	}
	selected := map[string]bool{}
	for _, l := range p.Selected {
		selected[l] = true
	}
	cancelled := o.FailFast && p.AnyFail
	// C12: nothing outside the selection runs
	for l := range res.Started {
		if !selected[l] {
			return pbt.Fail(sig("C12", "unselected-target-ran"), "%s ran but is not in the selection %v%s", l, p.Selected, tail())
		}
	}
	for _, l := range p.Selected {
		v := p.Verdict[l]
		n := res.Started[l]
		// More than once is only asserted where the model knows the cache state: with injected faults, or with an
		// entry of unknown usability (written while caching was off), a dependency that cannot be restored is
		// re-run on behalf of each dependant that needs it and, if it keeps failing, once per dependant.
		if n > 1 && !p.Faulted && v != May {
			return pbt.Fail(sig("C03", "executed-twice"), "%s was executed %d times in one build%s", l, n, tail())
		}
		switch {
		case v == Skip && n > 0:
			return pbt.Fail(sig("C05", "dependant-of-failed-target-ran"), "%s ran although a dependency failed%s", l, tail())
		case v == MustNot && n > 0 && p.ModeSwitch[l]:
			// known finding: the output hash of a dependency is computed differently when it runs without caching
			obs.Known["C13:dependants-rebuilt-after-cache-mode-switch"]++
		case v == MustNot && n > 0:
			return pbt.Fail(sig("C02", "executed-despite-valid-cache"), "%s was executed although the cache holds a successful result for its current state and nothing forces it%s", l, tail())
		case v == Must && n == 0 && !cancelled:
			why := "no cached result for its current state"
			t := w.Target(l)
			switch {
			case o.NoCache:
				why = "the cache is disabled"
			case t.NoCache():
				why = "it is tagged no-cache"
			case p.ChecksBad[l]:
				why = "an output check fails"
			}
			prop := "C02"
			if o.NoCache || t.NoCache() {
				prop = "C13"
			} else if p.ChecksBad[l] {
				prop = "C14"
			}
			return pbt.Fail(sig(prop, "not-executed-although-required"), "%s was not executed although %s%s", l, why, tail())
		}
	}
	// C03: dependencies first (within this build) and the worker bound
	endedAt := map[string]int{}
	running, maxRunning := 0, 0
	for i, ev := range res.Order {
		kind, l := ev[:1], ev[2:]
		switch kind {
		case "S":
			running++
			if running > maxRunning {
				maxRunning = running
			}
			t := w.Target(l)
			if t != nil {
				// under load_outputs=minimal only DIRECT dependencies are brought back before a target runs; one that is
				// reached through a grouping target may be a skipped cache hit now and be re-run later for somebody else
				deps := w.EffectiveDeps(t)
				if o.LoadOutputs == "minimal" {
					deps = w.DirectDeps(t)
				}
				for _, d := range deps {
					if res.Started[d] > 0 {
						if _, ok := endedAt[d]; !ok {
							return pbt.Fail(sig("C03", "started-before-dependency-finished"), "%s started (event %d) before its dependency %s finished%s", l, i, d, tail())
						}
					}
				}
			}
		case "E":
			endedAt[l] = i
			running--
		case "F":
			running--
		}
	}
	workers := w.Workers
	if workers < 1 {
		workers = 4
	}
	timeouts := false
	for _, l := range p.Selected {
		if p.WillFail[l] && res.Started[l] > 0 && !res.Ended[l] && !res.FailedT[l] {
			timeouts = true // a killed command leaves no end marker: the running count is then only an upper bound
		}
	}
	if maxRunning >= workers && len(p.Selected) > workers {
		obs.NonTrivial["workers-saturated"] = true
	}
	if maxRunning > workers && !timeouts && !cancelled {
		return pbt.Fail(sig("C03", "too-many-concurrent-commands"), "%d commands were running at once with num_workers=%d%s", maxRunning, workers, tail())
	}
	// C06: nothing outside the workspace is written through a link that sits at an output path
	if v := sb.VictimsIntact(); v != "" {
		return pbt.Fail(sig("C06", "wrote-outside-workspace"), "%s%s", v, tail())
	}
	// exit status
	if !p.Uncertain {
		if p.AnyFail && res.Exit == 0 {
			return pbt.Fail(sig("C05", "exit-zero-despite-failure"), "a target failed but grog exited 0%s", tail())
		}
		if !p.AnyFail && res.Exit != 0 {
			return pbt.Fail(sig("C01", "valid-build-failed"), "nothing should fail in this build but grog exited %d%s", res.Exit, tail())
		}
	}
	if !p.Uncertain && p.AnyFail {
		for _, l := range p.Selected {
			if p.Verdict[l] == Must && p.WillFail[l] && !strings.Contains(res.Out, l) {
				return pbt.Fail(sig("C05", "failed-target-not-named"), "%s failed but the output does not name it%s", l, tail())
			}
		}
	}
	// C01 / C06: outputs of a successful default-mode build equal the expectation computed from the sources
	if res.Exit == 0 && o.LoadOutputs == "" && !p.Uncertain {
		if err := sb.CompareOutputs(expect, p.Selected); err != nil {
			restored := false
			for _, l := range p.Selected {
				if res.Started[l] == 0 {
					restored = true
				}
			}
			what := "wrong-output-after-execution"
			if restored {
				what = "stale-or-wrong-output-after-build"
			}
			return pbt.Fail(sig("C01", what), "%v%s", err, tail())
		}
	}
	return nil
}

// freshCompare builds the current sources from scratch (empty cache, pristine checkout) and compares its outputs with the expectation.
func freshCompare(w WS, o BuildOpts, base, bin string, expect map[string]map[string]OutFile, selected []string) error {
	dir, err := os.MkdirTemp(base, "fresh-")
	if err != nil {
		return nil
	}
	defer os.RemoveAll(dir)
	sb, err := NewSandbox(dir, bin)
	if err != nil {
		return nil
	}
	if err := sb.Sync(w); err != nil {
		return nil
	}
	res := sb.Build(BuildOpts{Patterns: o.Patterns}, buildCap)
	if res.Exit != 0 {
		return pbt.Fail(sig("C01", "from-scratch-build-failed"), "a from-scratch build of the current sources exits %d\n%s", res.Exit, clip(res.Out))
	}
	if err := sb.CompareOutputs(expect, selected); err != nil {
		return pbt.Fail(sig("C01", "harness-expectation-disagrees-with-clean-build"), "the harness' expected outputs differ from what a from-scratch grog build produces (harness model error or non-deterministic command): %v", err)
	}
	return nil
}

// RunHistory plays the history against the real binary and the reference model.
func RunHistory(h History, bin string, orc Oracles) (*Observation, error) {
	obs := &Observation{Classes: map[string]bool{}, NonTrivial: map[string]bool{}, Known: map[string]int{}}
	base, err := os.MkdirTemp("", "hist-")
	if err != nil {
		return obs, fmt.Errorf("harness: %w", err)
	}
	defer func() {
		_ = filepath.Walk(base, func(p string, info os.FileInfo, err error) error {
			if err == nil && info.IsDir() {
				_ = os.Chmod(p, 0o755)
			}
			return nil
		})
		_ = os.RemoveAll(base)
	}()
	sb, err := NewSandbox(filepath.Join(base, "main"), bin)
	if err != nil {
		return obs, fmt.Errorf("harness: %w", err)
	}
	var sbMin *Sandbox
	if orc.Lockstep {
		if sbMin, err = NewSandbox(filepath.Join(base, "minimal"), bin); err != nil {
			return obs, fmt.Errorf("harness: %w", err)
		}
	}
	model := NewModel()
	modelMin := NewModel() // the minimal-mode sandbox has its own cache, hence its own model
	w := h.WS.Clone()
	editedSinceBuild := []string{}
	perturbedSinceBuild := false
	successfulBuilds := 0
	for i, st := range h.Steps {
		switch {
		case st.Kind == "build":
			o := *st.Build
			if err := sb.Sync(w); err != nil {
				return obs, fmt.Errorf("harness: %w", err)
			}
			if err := sb.SyncExt(model.Ext); err != nil {
				return obs, fmt.Errorf("harness: %w", err)
			}
			pred := model.Predict(w, o)
			expect, _ := w.Expect()
			res := sb.Build(o, buildCap)
			obs.Builds++
			obs.Log = append(obs.Log, fmt.Sprintf("#%d build %v exit=%d started=%v", i, buildArgs(o), res.Exit, SortedKeysInt(res.Started)))
			if err := checkBuild(w, o, pred, res, sb, expect, obs); err != nil {
				return obs, withHistory(err, obs)
			}
			// classification
			restored, executed := 0, 0
			for _, l := range pred.Selected {
				if res.Started[l] > 0 {
					executed++
				} else if pred.Verdict[l] == MustNot {
					restored++
					t := w.Target(l)
					if len(t.OutDirs) > 0 {
						obs.Classes["restored-dir-output"] = true
					}
				}
				if pred.Verdict[l] == Must && res.Started[l] > 0 && model.Cache[pred.Keys[l]] == "good" {
					obs.Classes["forced-despite-good-entry"] = true
					obs.NonTrivial["forced"] = true
				}
				if pred.Verdict[l] == Skip {
					obs.Classes["skipped-dependant"] = true
				}
			}
			if restored > 0 && len(editedSinceBuild) > 0 {
				obs.NonTrivial["hit-after-edit"] = true
				for _, e := range editedSinceBuild {
					obs.Classes["hit-after:"+e] = true
				}
			}
			if restored > 0 && perturbedSinceBuild {
				obs.NonTrivial["hit-after-perturbation"] = true
			}
			if restored > 0 && executed > 0 {
				obs.Classes["partial-rebuild"] = true
			}
			if executed == 0 && len(pred.Selected) > 0 && res.Exit == 0 {
				obs.Classes["noop-rebuild"] = true
			}
			if pred.AnyFail {
				obs.Classes["build-with-failure"] = true
				indep, dep := false, false
				for _, l := range pred.Selected {
					if pred.Verdict[l] == Skip {
						dep = true
					} else if !pred.WillFail[l] || pred.Verdict[l] == MustNot {
						indep = true
					}
				}
				if indep && dep {
					obs.NonTrivial["failure-with-dependant-and-independent"] = true
				}
			}
			if o.LoadOutputs == "minimal" {
				obs.Classes["minimal-mode-build"] = true
			}
			model.Ext.Markers = sb.ReadMarkers()
			ended := map[string]bool{}
			started := map[string]bool{}
			for l, n := range res.Started {
				started[l] = n > 0
			}
			for l := range res.Ended {
				ended[l] = true
			}
			model.Commit(w, o, pred, started, ended, false)
			if res.Exit == 0 {
				successfulBuilds++
				if orc.FreshCompareEvery > 0 && successfulBuilds%orc.FreshCompareEvery == 0 && o.LoadOutputs == "" {
					if err := freshCompare(w, o, base, bin, expect, pred.Selected); err != nil {
						return obs, withHistory(err, obs)
					}
					obs.Classes["compared-with-from-scratch-build"] = true
				}
			}
			if orc.Audit {
				if err := auditSandbox(sb); err != nil {
					return obs, withHistory(err, obs)
				}
			}
			if orc.Lockstep {
				modelMin.Ext = model.Ext
				if err := lockstepBuild(w, o, modelMin, sbMin, res, pred, expect, obs); err != nil {
					return obs, withHistory(err, obs)
				}
			}
			editedSinceBuild = nil
			perturbedSinceBuild = false
		case st.Kind == "build-kill" || st.Kind == "build-casfault":
			o := *st.Build
			if err := sb.Sync(w); err != nil {
				return obs, fmt.Errorf("harness: %w", err)
			}
			_ = sb.SyncExt(model.Ext)
			pred := model.Predict(w, o)
			var res Result
			if st.Kind == "build-kill" {
				res = sb.GrogWith("", buildCap, func(cmd *exec.Cmd) {
					time.Sleep(time.Duration(st.V) * time.Millisecond)
					_ = syscall.Kill(-cmd.Process.Pid, syscall.SIGKILL)
				}, buildArgs(o)...)
				obs.Classes["build-killed"] = true
				if len(res.Started) > len(res.Ended) {
					obs.NonTrivial["killed-mid-target"] = true
				}
				if len(res.Ended) > 0 && res.Exit != 0 {
					obs.NonTrivial["killed-after-some-target-finished"] = true
				}
			} else {
				// the blob store cannot be written during this build (a file sits where the directory should be)
				var moved []string
				for _, c := range sb.CacheDirs() {
					cas := filepath.Join(c, "cas")
					if _, err := os.Stat(cas); err == nil {
						_ = os.Rename(cas, cas+".aside")
						moved = append(moved, cas)
					}
					_ = os.WriteFile(cas, []byte("not a directory"), 0o644)
				}
				res = sb.Build(o, buildCap)
				for _, c := range sb.CacheDirs() {
					cas := filepath.Join(c, "cas")
					_ = os.Remove(cas)
				}
				for _, cas := range moved {
					_ = os.Rename(cas+".aside", cas)
				}
				obs.Classes["build-with-unwritable-blob-store"] = true
				obs.NonTrivial["storage-fault"] = true
				if res.TimedOut || crashRe.MatchString(res.Out) {
					return obs, withHistory(pbt.Fail(sig("C04", "internal-crash"), "build with an unwritable blob store crashed or hung\n%s", clip(res.Out)), obs)
				}
			}
			obs.Log = append(obs.Log, fmt.Sprintf("#%d %s %v (after %d ms) exit=%d started=%v ended=%v", i, st.Kind, buildArgs(o), st.V, res.Exit, SortedKeysInt(res.Started), SortedKeys(res.Ended)))
			started, ended := map[string]bool{}, map[string]bool{}
			for l, n := range res.Started {
				started[l] = n > 0
			}
			for l := range res.Ended {
				ended[l] = true
			}
			model.Ext.Markers = sb.ReadMarkers()
			model.Commit(w, o, pred, started, ended, true)
			model.CacheFault() // whatever was being written may or may not be there
			if orc.Audit {
				if err := auditSandbox(sb); err != nil {
					return obs, withHistory(err, obs)
				}
			}
		case st.Kind == "taint":
			t := w.target(st.T)
			if t == nil {
				continue
			}
			pattern := t.Label()
			if st.V%4 == 0 {
				pattern = "//..."
			}
			if err := sb.Sync(w); err != nil {
				return obs, fmt.Errorf("harness: %w", err)
			}
			res := sb.Grog("", buildCap, "taint", pattern)
			if res.Exit != 0 {
				return obs, withHistory(pbt.Fail(sig("C13", "taint-command-failed"), "grog taint %s exited %d\n%s", pattern, res.Exit, clip(res.Out)), obs)
			}
			if pattern == "//..." {
				for _, tt := range w.Targets {
					model.Taint[tt.Label()] = true
					modelMin.Taint[tt.Label()] = true
				}
			} else {
				model.Taint[pattern] = true
				modelMin.Taint[pattern] = true
			}
			if sbMin != nil {
				_ = sbMin.Sync(w)
				sbMin.Grog("", buildCap, "taint", pattern)
			}
			obs.Log = append(obs.Log, fmt.Sprintf("#%d taint %s", i, pattern))
			obs.Classes["taint"] = true
		case st.Kind == "relocate":
			dest := filepath.Join(sb.Base, fmt.Sprintf("moved-%d", i), pickStr([]string{"ws", "checkout", "some dir/ws"}, st.V))
			if err := sb.Relocate(dest); err != nil {
				return obs, fmt.Errorf("harness: %w", err)
			}
			obs.Log = append(obs.Log, fmt.Sprintf("#%d relocate checkout and its cache directory to %s", i, dest))
			obs.Classes["relocate"] = true
			perturbedSinceBuild = true
		case st.Kind == "grog-clean":
			// the user-facing way to empty the cache; everything selected afterwards has to run again
			res := sb.Grog("", buildCap, "clean")
			if res.Exit != 0 {
				return obs, withHistory(pbt.Fail(sig("C07", "clean-command-failed"), "grog clean exited %d\n%s", res.Exit, clip(res.Out)), obs)
			}
			if sbMin != nil {
				sbMin.Grog("", buildCap, "clean")
			}
			model.Cleaned()
			modelMin.Cleaned()
			obs.Log = append(obs.Log, fmt.Sprintf("#%d grog clean", i))
			obs.Classes["grog-clean"] = true
		case st.Kind == "fault-wipe-cas":
			sb.WipeCas(w)
			if sbMin != nil {
				sbMin.WipeCas(w)
			}
			model.CacheFault()
			modelMin.CacheFault()
			obs.Log = append(obs.Log, fmt.Sprintf("#%d wipe cas + workspace outputs", i))
			obs.Classes["fault:wipe-cas"] = true
		case st.Kind == "perturb-clean":
			// a fresh checkout on a warm cache: every build product is gone, the cache is untouched
			sb.WipeOutputs(w)
			if sbMin != nil {
				sbMin.WipeOutputs(w)
			}
			obs.Log = append(obs.Log, fmt.Sprintf("#%d remove every build product from the workspace", i))
			obs.Classes[st.Kind] = true
			perturbedSinceBuild = true
		case strings.HasPrefix(st.Kind, "perturb-"):
			if sbMin != nil {
				_ = sbMin.Perturb(&w, st) // the same workspace perturbation in the minimal-mode sandbox
			}
			if d := sb.Perturb(&w, st); d != "" {
				obs.Log = append(obs.Log, fmt.Sprintf("#%d %s", i, d))
				obs.Classes[st.Kind] = true
				perturbedSinceBuild = true
			}
		default:
			if d := ApplyEdit(&w, st); d != "" {
				obs.Log = append(obs.Log, fmt.Sprintf("#%d %s", i, d))
				editedSinceBuild = append(editedSinceBuild, st.Kind)
				obs.Classes["edit:"+st.Kind] = true
			} else if d := ApplyExt(&w, &model.Ext, st); d != "" {
				obs.Log = append(obs.Log, fmt.Sprintf("#%d %s", i, d))
				obs.Classes["ext:"+st.Kind] = true
			}
		}
	}
	for k := range obs.Known {
		// reported as a known finding (listed in known_findings.jsonl) — everything else in the history held
		return obs, &pbt.Violation{Sig: k, Msg: "known finding observed; history otherwise clean\n--- history\n" + strings.Join(obs.Log, "\n")}
	}
	return obs, nil
}

// auditSandbox: every visible blob has its digest's content, every target result decodes, carries its key and
// references only blobs that are present (C07).
func auditSandbox(sb *Sandbox) error {
	for _, c := range sb.CacheDirs() {
		st, err := audit.LoadDir(c)
		if err != nil {
			return fmt.Errorf("harness: audit: %w", err)
		}
		if ps := audit.Check(st); len(ps) > 0 {
			var msgs []string
			for _, p := range ps {
				msgs = append(msgs, p.Kind+": "+p.Msg)
			}
			return pbt.Fail(sig("C07", ps[0].Kind), "the persistent cache is inconsistent:\n%s", strings.Join(msgs, "\n"))
		}
	}
	return nil
}

func withHistory(err error, obs *Observation) error {
	if v, ok := err.(*pbt.Violation); ok {
		return &pbt.Violation{Sig: v.Sig, Msg: v.Msg + "\n--- history so far\n" + strings.Join(obs.Log, "\n")}
	}
	return err
}

func SortedKeysInt(m map[string]int) []string {
	b := map[string]bool{}
	for k, v := range m {
		b[k] = v > 0
	}
	return SortedKeys(b)
}

// lockstepBuild plays the same build with load_outputs=minimal in the second sandbox (own cache, own model) and compares (C15).
func lockstepBuild(w WS, o BuildOpts, mm *Model, sbMin *Sandbox, resAll Result, predAll Prediction, expect map[string]map[string]OutFile, obs *Observation) error {
	if err := sbMin.Sync(w); err != nil {
		return fmt.Errorf("harness: %w", err)
	}
	om := o
	om.LoadOutputs = "minimal"
	pred := mm.Predict(w, om)
	res := sbMin.Build(om, buildCap)
	tail := func() string {
		return fmt.Sprintf("\nbuild args (minimal): %v exit=%d trace=%v\n--- output (minimal)\n%s\n--- all-mode: exit=%d trace=%v", buildArgs(om), res.Exit, res.Lines, clip(res.Out), resAll.Exit, resAll.Lines)
	}
	// the per-build oracles hold for the minimal sandbox in its own right
	if err := checkBuild(w, om, pred, res, sbMin, expect, obs); err != nil {
		if v, ok := err.(*pbt.Violation); ok {
			return &pbt.Violation{Sig: v.Sig, Msg: "(load_outputs=minimal sandbox) " + v.Msg}
		}
		return err
	}
	if (res.Exit == 0) != (resAll.Exit == 0) {
		return pbt.Fail(sig("C15", "exit-status-differs"), "load_outputs=all exits %d, load_outputs=minimal exits %d%s", resAll.Exit, res.Exit, tail())
	}
	hasMay := predAll.Uncertain || pred.Uncertain
	for _, l := range pred.Selected {
		if pred.Verdict[l] == May || predAll.Verdict[l] == May || pred.ModeSwitch[l] || predAll.ModeSwitch[l] {
			hasMay = true
		}
	}
	if !hasMay {
		a, b := SortedKeysInt(resAll.Started), SortedKeysInt(res.Started)
		if fmt.Sprint(a) != fmt.Sprint(b) {
			return pbt.Fail(sig("C15", "executed-set-differs"), "executed under all: %v, under minimal: %v%s", a, b, tail())
		}
	}
	if res.Exit == 0 {
		// every output of a target EXECUTED under minimal equals the expectation: all dependency outputs it read were present and current
		var executed []string
		for _, l := range pred.Selected {
			if res.Started[l] > 0 {
				executed = append(executed, l)
			}
		}
		if err := sbMin.CompareOutputs(expect, executed); err != nil {
			return pbt.Fail(sig("C15", "wrong-output-under-minimal"), "%v%s", err, tail())
		}
		for _, l := range executed {
			for _, d := range w.DirectDeps(w.Target(l)) {
				if res.Started[d] == 0 {
					obs.NonTrivial["minimal-executed-with-cached-dependency"] = true
				}
			}
		}
	}
	started, ended := map[string]bool{}, map[string]bool{}
	for l, n := range res.Started {
		started[l] = n > 0
	}
	for l := range res.Ended {
		ended[l] = true
	}
	mm.Commit(w, om, pred, started, ended, false)
	return nil
}
