// Package walkeng drives grog's real graph walker together with its real
// worker pool over generated DAGs, selections, latencies, failures and cancel
// times, either inside a testing/synctest bubble (virtual time: completion
// order is a deterministic function of the generated latencies, a hang is a
// synctest deadlock report) or on the real scheduler.
package walkeng

import (
	"context"
	"errors"
	"fmt"
	"runtime"
	"sort"
	"sync"
	"testing"
	"testing/synctest"
	"time"

	tea "github.com/charmbracelet/bubbletea"

	"grog/internal/config"
	"grog/internal/console"
	"grog/internal/dag"
	"grog/internal/label"
	"grog/internal/model"
	"grog/internal/worker"

	"pgregory.net/rapid"
)

type Case struct {
	N          int      `json:"n"`
	Edges      [][2]int `json:"edges"` // [dependency, dependant]
	Selected   []bool   `json:"selected"`
	Workers    int      `json:"workers"`
	LatencyUs  []int    `json:"latency_us"` // per node, microseconds (virtual in bubble mode)
	Fail       []bool   `json:"fail"`
	FailFast   bool     `json:"fail_fast"`
	CancelAtUs int      `json:"cancel_at_us"` // external cancel, -1 = none
	Shape      string   `json:"shape"`
	Alias      []bool   `json:"alias,omitempty"` // alias nodes: exactly one dependency, resolved without the pool
	GoMaxProcs int      `json:"gomaxprocs,omitempty"`
	// NoPool: tasks run inline behind a plain semaphore instead of grog's TaskWorkerPool (whose shutdown closes a
	// channel under concurrent sends on purpose, which the race detector reports): lets the race detector look at
	// the walker alone under fail-fast and cancellation.
	NoPool bool `json:"no_pool,omitempty"`
}

type Event struct {
	Seq  int           `json:"seq"`
	At   time.Duration `json:"at"`
	Kind string        `json:"kind"` // C callback entered, S command started, E ended ok, F failed, K killed by cancel
	Node int           `json:"node"`
}

type Outcome struct {
	Events      []Event
	Completions map[int]bool // node -> success
	WalkErr     error
	Hang        string // non-empty: Walk did not return (deadlock report or timeout)
	Panic       string
	Returned    bool   // Walk returned
	CancelFired bool   // the external cancel happened before Walk returned
	Leak        string // goroutines still blocked after Walk returned (not a violation)
}

func nodeLabel(i int) label.TargetLabel {
	return label.TargetLabel{Package: "p", Name: fmt.Sprintf("n%d", i)}
}

func (c Case) deps() [][]int {
	d := make([][]int, c.N)
	for _, e := range c.Edges {
		d[e[1]] = append(d[e[1]], e[0])
	}
	return d
}

// TransitiveDeps returns for each node the set of all nodes it transitively depends on.
func (c Case) TransitiveDeps() []map[int]bool {
	deps := c.deps()
	memo := make([]map[int]bool, c.N)
	var visit func(i int) map[int]bool
	visit = func(i int) map[int]bool {
		if memo[i] != nil {
			return memo[i]
		}
		m := map[int]bool{}
		memo[i] = m
		for _, d := range deps[i] {
			m[d] = true
			for k := range visit(d) {
				m[k] = true
			}
		}
		return m
	}
	for i := 0; i < c.N; i++ {
		visit(i)
	}
	return memo
}

func (c Case) isAlias(i int) bool { return i < len(c.Alias) && c.Alias[i] }

func buildGraph(c Case) (*dag.DirectedTargetGraph, []model.BuildNode, error) {
	g := dag.NewDirectedGraph()
	targets := make([]model.BuildNode, c.N)
	deps := c.deps()
	for i := 0; i < c.N; i++ {
		if c.isAlias(i) && len(deps[i]) == 1 {
			targets[i] = &model.Alias{Label: nodeLabel(i), Actual: nodeLabel(deps[i][0]), IsSelected: c.Selected[i]}
		} else {
			targets[i] = &model.Target{Label: nodeLabel(i), Command: "true", IsSelected: c.Selected[i]}
		}
		g.AddNode(targets[i])
	}
	for _, e := range c.Edges {
		if err := g.AddEdge(targets[e[0]], targets[e[1]]); err != nil {
			return nil, nil, err
		}
	}
	return g, targets, nil
}

func body(c Case, virtual bool) Outcome {
	out := Outcome{Completions: map[int]bool{}}
	g, _, err := buildGraph(c)
	if err != nil {
		out.Panic = "harness: " + err.Error()
		return out
	}
	index := map[label.TargetLabel]int{}
	for i := 0; i < c.N; i++ {
		index[nodeLabel(i)] = i
	}
	var mu sync.Mutex
	start := time.Now()
	seq := 0
	var events []Event
	closed := false
	cancelFired := false
	log := func(kind string, node int) {
		mu.Lock()
		if !closed { // callbacks that outlive Walk (cancelled runs) are no longer part of the observation
			seq++
			events = append(events, Event{Seq: seq, At: time.Since(start), Kind: kind, Node: node})
		}
		mu.Unlock()
	}
	ctx, cancel := context.WithCancel(context.Background())
	defer cancel()
	selectedCount := 0
	for _, s := range c.Selected {
		if s {
			selectedCount++
		}
	}
	sem := make(chan struct{}, max(1, c.Workers))
	pool := worker.NewTaskWorkerPool[dag.CacheResult](console.GetLogger(ctx), c.Workers, func(tea.Msg) {}, selectedCount)
	pool.StartWorkers(ctx)
	defer pool.Shutdown()

	callback := func(ctx context.Context, node model.BuildNode) (dag.CacheResult, error) {
		i := index[node.GetLabel()]
		log("C", i)
		if _, isAlias := node.(*model.Alias); isAlias {
			// like the executor: nothing to do for an alias
			log("E", i)
			return dag.CacheHit, nil
		}
		runTask := pool.Run
		if c.NoPool {
			runTask = func(task worker.TaskFunc[dag.CacheResult]) (dag.CacheResult, error) {
				select {
				case sem <- struct{}{}:
				case <-ctx.Done():
					return dag.CacheMiss, ctx.Err()
				}
				defer func() { <-sem }()
				return task(func(worker.StatusUpdate) {})
			}
		}
		return runTask(func(update worker.StatusFunc) (dag.CacheResult, error) {
			// like exec.CommandContext: a command is not started on a cancelled context
			if ctx.Err() != nil {
				return dag.CacheMiss, ctx.Err()
			}
			log("S", i)
			lat := time.Duration(c.LatencyUs[i]) * time.Microsecond
			if lat > 0 {
				timer := time.NewTimer(lat)
				select {
				case <-timer.C:
				case <-ctx.Done():
					timer.Stop()
					log("K", i)
					return dag.CacheMiss, ctx.Err()
				}
			} else if !virtual {
				runtime.Gosched()
			}
			if c.Fail[i] {
				log("F", i)
				return dag.CacheMiss, fmt.Errorf("node %d failed", i)
			}
			log("E", i)
			return dag.CacheHit, nil
		})
	}
	if c.CancelAtUs >= 0 {
		go func() {
			timer := time.NewTimer(time.Duration(c.CancelAtUs) * time.Microsecond)
			select {
			case <-timer.C:
				mu.Lock()
				cancelFired = true
				mu.Unlock()
				cancel()
			case <-ctx.Done():
				timer.Stop()
			}
		}()
	}
	w := dag.NewWalker(g, callback, c.FailFast)
	type walkResult struct {
		cm  dag.CompletionMap
		err error
	}
	done := make(chan walkResult, 1)
	go func() {
		cm, err := w.Walk(ctx)
		done <- walkResult{cm, err}
	}()
	var res walkResult
	if virtual {
		res = <-done // a hang is a synctest deadlock
	} else {
		select {
		case res = <-done:
		case <-time.After(30 * time.Second):
			buf := make([]byte, 1<<16)
			buf = buf[:runtime.Stack(buf, true)]
			out.Hang = "Walk did not return within 30 s on the real scheduler\n" + string(buf[:min(len(buf), 6000)])
			cancel()
			return out
		}
	}
	mu.Lock()
	closed = true
	out.Events = events
	out.CancelFired = cancelFired
	out.WalkErr = res.err
	out.Returned = true
	for l, comp := range res.cm {
		out.Completions[index[l]] = comp.IsSuccess
	}
	mu.Unlock()
	cancel()
	pool.Shutdown()
	return out
}

var configOnce sync.Once

// Run executes the case. In virtual mode the body runs in a synctest bubble.
func Run(t *testing.T, c Case, virtual bool) (out Outcome) {
	// written once per process: goroutines of earlier cases may still read it
	configOnce.Do(func() { config.Global.DisableNonDeterministicLogging = true })
	if !virtual {
		if c.GoMaxProcs > 0 {
			prev := runtime.GOMAXPROCS(c.GoMaxProcs)
			defer runtime.GOMAXPROCS(prev)
		}
		return body(c, false)
	}
	defer func() {
		if p := recover(); p != nil {
			msg := fmt.Sprint(p)
			if out.Returned {
				// Walk returned; goroutines left blocked behind it (e.g. node routines
				// waiting for a pool that shut down) die with the process in real life
				out.Leak = msg
			} else {
				out.Hang = "synctest: " + msg
			}
		}
	}()
	synctest.Test(t, func(t *testing.T) {
		out = body(c, true)
	})
	return out
}

// ------------------------------------------------------------------ oracles

type Violation struct {
	Sig string
	Msg string
}

func (c Case) describe(i int) string {
	return fmt.Sprintf("n%d(lat=%dus fail=%v sel=%v)", i, c.LatencyUs[i], c.Fail[i], c.Selected[i])
}

// CheckOrder: C03 — dependencies first, each once, at most Workers commands at a time,
// unselected nodes never run.
func CheckOrder(c Case, o Outcome) *Violation {
	tdeps := c.TransitiveDeps()
	ended := map[int]bool{}
	started := map[int]int{}
	running := 0
	for _, e := range o.Events {
		switch e.Kind {
		case "C":
			if !c.Selected[e.Node] {
				return &Violation{"unselected-node-run", fmt.Sprintf("callback ran for unselected %s", c.describe(e.Node))}
			}
			for d := range tdeps[e.Node] {
				if c.isAlias(d) {
					continue // the property speaks about targets; when an alias node itself is marked done is internal
				}
				if !ended[d] {
					return &Violation{"released-before-dependency-finished", fmt.Sprintf("%s released at %v (event #%d) before its transitive dependency %s finished successfully", c.describe(e.Node), e.At, e.Seq, c.describe(d))}
				}
			}
		case "S":
			started[e.Node]++
			if started[e.Node] > 1 {
				return &Violation{"started-twice", fmt.Sprintf("%s started %d times", c.describe(e.Node), started[e.Node])}
			}
			for d := range tdeps[e.Node] {
				if c.isAlias(d) {
					continue
				}
				if !ended[d] {
					return &Violation{"started-before-dependency-finished", fmt.Sprintf("%s started at %v before its transitive dependency %s finished successfully", c.describe(e.Node), e.At, c.describe(d))}
				}
			}
			running++
			if running > c.Workers {
				return &Violation{"too-many-concurrent-commands", fmt.Sprintf("%d commands running at %v with num_workers=%d", running, e.At, c.Workers)}
			}
		case "E":
			ended[e.Node] = true
			if !c.isAlias(e.Node) {
				running--
			}
		case "F", "K":
			running--
		}
	}
	return nil
}

// CheckResolved: C04 — Walk returned and every selected node is resolved.
func CheckResolved(c Case, o Outcome) *Violation {
	if o.Panic != "" {
		return &Violation{"panic", o.Panic}
	}
	if o.Hang != "" {
		return &Violation{"walk-hang", o.Hang}
	}
	for i := range o.Completions {
		if !c.Selected[i] {
			return &Violation{"completion-for-unselected", fmt.Sprintf("completion map has unselected %s", c.describe(i))}
		}
	}
	externallyCancelled := o.CancelFired
	failedSeen := false
	endState := map[int]string{}
	for _, e := range o.Events {
		switch e.Kind {
		case "E":
			endState[e.Node] = "ok"
		case "F":
			endState[e.Node] = "failed"
			failedSeen = true
		case "K":
			endState[e.Node] = "killed"
		}
	}
	for i, st := range endState {
		succ, has := o.Completions[i]
		switch st {
		case "ok":
			if has && !succ {
				return &Violation{"completion-disagrees", fmt.Sprintf("%s ended ok but is recorded as failed", c.describe(i))}
			}
			if !has && !externallyCancelled && !(c.FailFast && failedSeen) {
				return &Violation{"finished-node-not-recorded", fmt.Sprintf("%s finished successfully but has no completion", c.describe(i))}
			}
		case "failed":
			if has && succ {
				return &Violation{"failed-node-recorded-as-success", fmt.Sprintf("%s failed but is recorded as success", c.describe(i))}
			}
			if !has && !externallyCancelled && !(c.FailFast && failedSeen) {
				return &Violation{"failed-node-not-recorded", fmt.Sprintf("%s failed but has no completion", c.describe(i))}
			}
		}
	}
	if o.WalkErr != nil && !errors.Is(o.WalkErr, context.Canceled) {
		return &Violation{"walk-error", fmt.Sprintf("Walk returned %v", o.WalkErr)}
	}
	if o.WalkErr != nil && !o.CancelFired {
		return &Violation{"walk-cancelled-without-cancel", fmt.Sprintf("Walk returned %v although nobody cancelled", o.WalkErr)}
	}
	if externallyCancelled || (c.FailFast && failedSeen) {
		return nil // everything unresolved is "skipped because the build was cancelled"
	}
	// keep-going, not cancelled: every selected node is succeeded, failed, or has a failed transitive dependency
	tdeps := c.TransitiveDeps()
	for i := 0; i < c.N; i++ {
		if !c.Selected[i] {
			continue
		}
		if _, has := o.Completions[i]; has {
			continue
		}
		blocked := false
		for d := range tdeps[i] {
			if endState[d] == "failed" {
				blocked = true
			}
		}
		if !blocked {
			return &Violation{"selected-node-unresolved", fmt.Sprintf("%s is selected, none of its dependencies failed, the walk was not cancelled, yet it has no completion", c.describe(i))}
		}
	}
	return nil
}

// CheckContainment: C05 — keep-going builds everything independent of failures and
// nothing downstream of them; fail-fast starts nothing after the first failure.
func CheckContainment(c Case, o Outcome) *Violation {
	if o.Hang != "" || o.Panic != "" {
		return nil // reported by C04
	}
	if o.CancelFired {
		return nil
	}
	tdeps := c.TransitiveDeps()
	started := map[int]bool{}
	var firstFail *Event
	for i := range o.Events {
		e := o.Events[i]
		if e.Kind == "S" {
			started[e.Node] = true
			if c.FailFast && firstFail != nil && e.At > firstFail.At {
				return &Violation{"start-after-fail-fast", fmt.Sprintf("%s started at %v, after %s failed at %v with fail-fast", c.describe(e.Node), e.At, c.describe(firstFail.Node), firstFail.At)}
			}
		}
		if e.Kind == "F" && firstFail == nil {
			firstFail = &o.Events[i]
		}
	}
	for i := 0; i < c.N; i++ {
		if !c.Selected[i] || c.isAlias(i) {
			continue
		}
		downstream := false
		for d := range tdeps[i] {
			if c.Fail[d] {
				downstream = true
			}
		}
		if downstream && started[i] {
			return &Violation{"dependant-of-failed-node-ran", fmt.Sprintf("%s ran although a transitive dependency failed", c.describe(i))}
		}
		if !c.FailFast && !downstream && !started[i] {
			return &Violation{"independent-node-not-built", fmt.Sprintf("keep-going: %s does not depend on any failed node but never ran", c.describe(i))}
		}
	}
	anyFail := false
	for i := 0; i < c.N; i++ {
		if c.Selected[i] && c.Fail[i] && started[i] {
			anyFail = true
			if succ, has := o.Completions[i]; !has && !c.FailFast || (has && succ) {
				return &Violation{"failure-not-reported", fmt.Sprintf("%s failed but the completion map does not say so", c.describe(i))}
			}
		}
	}
	_ = anyFail
	return nil
}

// --------------------------------------------------------------- generators

type GenOpts struct {
	MaxN       int
	Failures   bool
	Cancel     bool
	ZeroBias   bool // mostly zero latencies (registration races need speed, not depth)
	RealTime   bool // latencies suitable for the real scheduler
	MaxWorkers int
}

func Gen(t *rapid.T, o GenOpts) Case {
	if o.MaxWorkers == 0 {
		o.MaxWorkers = 8
	}
	shape := rapid.SampledFrom([]string{"random", "random", "chain", "diamond", "fan-out", "fan-in", "layers"}).Draw(t, "shape")
	n := rapid.IntRange(2, o.MaxN).Draw(t, "n")
	c := Case{N: n, Shape: shape, CancelAtUs: -1}
	addEdge := func(from, to int) { c.Edges = append(c.Edges, [2]int{from, to}) }
	switch shape {
	case "chain":
		for i := 1; i < n; i++ {
			addEdge(i-1, i)
		}
	case "diamond":
		// repeated diamonds: 0 -> {1,2} -> 3 -> {4,5} -> 6 ...
		for i := 0; i+3 < n; i += 3 {
			addEdge(i, i+1)
			addEdge(i, i+2)
			addEdge(i+1, i+3)
			addEdge(i+2, i+3)
		}
	case "fan-out":
		for i := 1; i < n; i++ {
			addEdge(0, i)
		}
	case "fan-in":
		for i := 0; i < n-1; i++ {
			addEdge(i, n-1)
		}
	case "layers":
		w := rapid.IntRange(2, 5).Draw(t, "layerwidth")
		for i := w; i < n; i++ {
			layer := i / w
			for j := (layer - 1) * w; j < layer*w; j++ {
				addEdge(j, i)
			}
		}
	default:
		pct := rapid.IntRange(5, 50).Draw(t, "edgepct")
		if n > 200 {
			pct = 1
		}
		for i := 1; i < n; i++ {
			lo := 0
			if n > 200 && i > 20 {
				lo = i - 20
			}
			for j := lo; j < i; j++ {
				if rapid.IntRange(0, 99).Draw(t, "edge") < pct {
					addEdge(j, i)
				}
			}
		}
	}
	// selection closed under dependencies
	c.Selected = make([]bool, n)
	if rapid.IntRange(0, 2).Draw(t, "selectall") > 0 {
		for i := range c.Selected {
			c.Selected[i] = true
		}
	} else {
		deps := c.deps()
		var sel func(i int)
		sel = func(i int) {
			if c.Selected[i] {
				return
			}
			c.Selected[i] = true
			for _, d := range deps[i] {
				sel(d)
			}
		}
		k := rapid.IntRange(1, min(n, 4)).Draw(t, "nseeds")
		for ; k > 0; k-- {
			sel(rapid.IntRange(0, n-1).Draw(t, "seed"))
		}
	}
	if n <= 200 {
		c.Alias = make([]bool, n)
		indeg := make([]int, n)
		for _, e := range c.Edges {
			indeg[e[1]]++
		}
		for i := 0; i < n; i++ {
			if indeg[i] == 1 && rapid.IntRange(0, 3).Draw(t, "alias") == 0 {
				c.Alias[i] = true
			}
		}
	}
	c.Workers = rapid.IntRange(1, o.MaxWorkers).Draw(t, "workers")
	c.LatencyUs = make([]int, n)
	c.Fail = make([]bool, n)
	lats := []int{0, 1000, 2000, 3000, 10000}
	if o.RealTime {
		lats = []int{0, 0, 1, 20, 200}
	}
	allZero := o.ZeroBias && rapid.IntRange(0, 1).Draw(t, "allzero") == 0
	for i := 0; i < n; i++ {
		if !allZero {
			c.LatencyUs[i] = rapid.SampledFrom(lats).Draw(t, "lat")
		}
		if o.Failures && !c.isAlias(i) && rapid.IntRange(0, 9).Draw(t, "fail") == 0 {
			c.Fail[i] = true
		}
	}
	if o.Failures {
		c.FailFast = rapid.Bool().Draw(t, "failfast")
	}
	if o.Cancel && rapid.IntRange(0, 3).Draw(t, "cancel") == 0 {
		max := 20000
		if o.RealTime {
			max = 500
		}
		c.CancelAtUs = rapid.IntRange(0, max).Draw(t, "cancelat")
	}
	if o.RealTime {
		c.GoMaxProcs = rapid.SampledFrom([]int{1, 2, 4, 16}).Draw(t, "gomaxprocs")
	}
	return c
}

// Features for non-triviality rules.
func (c Case) HasJoinWithDistinctFinishTimes() bool {
	deps := c.deps()
	for i := 0; i < c.N; i++ {
		if !c.Selected[i] || len(deps[i]) < 2 {
			continue
		}
		seen := map[int]bool{}
		for _, d := range deps[i] {
			seen[c.LatencyUs[d]] = true
		}
		if len(seen) > 1 {
			return true
		}
	}
	return false
}

// MaxAntichainLowerBound: size of the largest "layer" of selected nodes with equal depth.
func (c Case) WidthLowerBound() int {
	deps := c.deps()
	depth := make([]int, c.N)
	count := map[int]int{}
	best := 0
	for i := 0; i < c.N; i++ {
		for _, d := range deps[i] {
			if depth[d]+1 > depth[i] {
				depth[i] = depth[d] + 1
			}
		}
		if c.Selected[i] {
			count[depth[i]]++
			if count[depth[i]] > best {
				best = count[depth[i]]
			}
		}
	}
	return best
}

func (c Case) SelectedFailures() (n int, withDependants bool) {
	tdeps := c.TransitiveDeps()
	for i := 0; i < c.N; i++ {
		if c.Selected[i] && c.Fail[i] {
			n++
			for j := 0; j < c.N; j++ {
				if c.Selected[j] && tdeps[j][i] {
					withDependants = true
				}
			}
		}
	}
	return
}

func SortEvents(evs []Event) { sort.Slice(evs, func(i, j int) bool { return evs[i].Seq < evs[j].Seq }) }
