// Package refmodel holds reference models written from the documentation,
// independent of the code under test.
package refmodel

import (
	"strings"

	"grog/internal/label"
)

func ValidName(n string) bool {
	if n == "" || n == "..." {
		return false
	}
	for _, c := range n {
		switch {
		case c >= 'a' && c <= 'z', c >= 'A' && c <= 'Z', c >= '0' && c <= '9', c == '_', c == '-', c == '.':
		default:
			return false
		}
	}
	return true
}

// validPkg: documented package paths: "" or seg(/seg)* with non-empty segments
// made of name characters, none of them containing "..." (that is the wildcard).
func ValidPkg(p string) bool {
	if p == "" {
		return true
	}
	for _, seg := range strings.Split(p, "/") {
		if !ValidName(seg) || strings.Contains(seg, "...") {
			return false
		}
	}
	return true
}

// refLabel parses a label of the documented grammar. ok=false: outside grammar.
func RefLabel(cur, s string) (label.TargetLabel, bool) {
	if strings.HasPrefix(s, ":") {
		n := s[1:]
		if !ValidName(n) {
			return label.TargetLabel{}, false
		}
		return label.TargetLabel{Package: cur, Name: n}, true
	}
	if !strings.HasPrefix(s, "//") {
		return label.TargetLabel{}, false
	}
	body := s[2:]
	if i := strings.Index(body, ":"); i >= 0 {
		p, n := body[:i], body[i+1:]
		if !ValidPkg(p) || !ValidName(n) {
			return label.TargetLabel{}, false
		}
		return label.TargetLabel{Package: p, Name: n}, true
	}
	if body == "" || !ValidPkg(body) {
		return label.TargetLabel{}, false
	}
	segs := strings.Split(body, "/")
	return label.TargetLabel{Package: body, Name: segs[len(segs)-1]}, true
}

type RefPattern struct {
	Pkg       string
	Recursive bool
	Name      string // "" = any
}

func (p RefPattern) Matches(l label.TargetLabel) bool {
	if p.Recursive {
		if p.Pkg != "" && l.Package != p.Pkg && !strings.HasPrefix(l.Package, p.Pkg+"/") {
			return false
		}
	} else if l.Package != p.Pkg {
		return false
	}
	return p.Name == "" || l.Name == p.Name
}

// refParsePattern: documented pattern grammar.
func RefParsePattern(cur, s string) (RefPattern, bool) {
	nameOf := func(n string) (string, bool) {
		if n == "all" || n == "..." {
			return "", true
		}
		return n, ValidName(n)
	}
	if strings.HasPrefix(s, ":") {
		n, ok := nameOf(s[1:])
		return RefPattern{Pkg: cur, Name: n}, ok
	}
	if !strings.HasPrefix(s, "//") {
		return RefPattern{}, false
	}
	body := s[2:]
	pkgPart, namePart, hasName := body, "", false
	if i := strings.Index(body, ":"); i >= 0 {
		pkgPart, namePart, hasName = body[:i], body[i+1:], true
	}
	rp := RefPattern{}
	if pkgPart == "..." {
		rp.Recursive, rp.Pkg = true, ""
	} else if strings.HasSuffix(pkgPart, "/...") {
		rp.Recursive, rp.Pkg = true, strings.TrimSuffix(pkgPart, "/...")
		if rp.Pkg == "" || !ValidPkg(rp.Pkg) {
			return RefPattern{}, false
		}
	} else {
		rp.Pkg = pkgPart
		if !ValidPkg(rp.Pkg) {
			return RefPattern{}, false
		}
	}
	if hasName {
		n, ok := nameOf(namePart)
		if !ok {
			return RefPattern{}, false
		}
		rp.Name = n
		return rp, true
	}
	if rp.Recursive {
		return rp, true
	}
	// shorthand //a/b == //a/b:b
	if rp.Pkg == "" {
		return RefPattern{}, false
	}
	segs := strings.Split(rp.Pkg, "/")
	rp.Name = segs[len(segs)-1]
	if rp.Name == "all" { // "//all" would read as //all:all = every target of package all; leave to the round-trip oracle
		return RefPattern{}, false
	}
	return rp, true
}
