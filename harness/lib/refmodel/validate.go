package refmodel

import (
	"path/filepath"
	"sort"
	"strings"

	"grog/verif/lib/wsgen"
)

// Defect is one reason for which C11 says the graph must be rejected.
type Defect struct {
	Kind   string
	Labels []string
}

type parsedOutput struct {
	typ  string // file | dir | docker
	id   string
	path string // workspace-relative clean path (file/dir)
}

func parseOutput(pkg, def string) parsedOutput {
	typ, id := "file", def
	if i := strings.Index(def, "::"); i >= 0 {
		typ, id = def[:i], def[i+2:]
	}
	po := parsedOutput{typ: typ, id: id}
	if typ != "docker" {
		po.path = filepath.Clean(filepath.Join(pkg, id))
	}
	return po
}

func within(p, dir string) bool { return p == dir || strings.HasPrefix(p, dir+"/") }

func escapes(clean string) bool { return clean == ".." || strings.HasPrefix(clean, "../") }

// ValidateGraph is the reference validator written from the sentence of C11.
func ValidateGraph(g wsgen.Graph) []Defect {
	var ds []Defect
	add := func(kind string, labels ...string) { ds = append(ds, Defect{Kind: kind, Labels: labels}) }

	// duplicate labels
	count := map[string]int{}
	for _, t := range g.Targets {
		count[t.Label()]++
	}
	for _, a := range g.Aliases {
		count[a.Label()]++
	}
	for l, n := range count {
		if n > 1 {
			add("duplicate-label", l)
		}
	}
	// undefined dependencies
	deps := g.NodeDeps()
	for l, ds2 := range deps {
		for _, d := range ds2 {
			if count[d] == 0 {
				add("undefined-dependency", l, d)
			}
		}
	}
	// cycles (self reference included) over the node graph
	state := map[string]int{}
	var cyc func(l string) bool
	cyc = func(l string) bool {
		state[l] = 1
		for _, d := range deps[l] {
			if count[d] == 0 {
				continue
			}
			if state[d] == 1 || (state[d] == 0 && cyc(d)) {
				return true
			}
		}
		state[l] = 2
		return false
	}
	labels := make([]string, 0, len(deps))
	for l := range deps {
		labels = append(labels, l)
	}
	sort.Strings(labels)
	for _, l := range labels {
		if state[l] == 0 && cyc(l) {
			add("cycle", l)
			break
		}
	}
	// path constraints
	for _, t := range g.Targets {
		for _, in := range t.Inputs {
			if filepath.IsAbs(in) || escapes(filepath.Clean(in)) {
				add("input-escapes-package", t.Label(), in)
			}
		}
		outs := append([]string{}, t.Outputs...)
		if t.Bin != "" {
			outs = append(outs, t.Bin)
		}
		for _, o := range outs {
			po := parseOutput(t.Pkg, o)
			if po.typ == "docker" {
				continue
			}
			if filepath.IsAbs(po.id) || escapes(po.path) {
				add("output-escapes-workspace", t.Label(), o)
			}
		}
	}
	// test / testonly dependency rules (through aliases)
	byLabel := g.TargetByLabel()
	for _, t := range g.Targets {
		for _, d := range t.Deps {
			dt := byLabel[g.Resolve(d)]
			if dt == nil {
				continue
			}
			if dt.IsTest() && !t.IsTest() {
				add("depends-on-test", t.Label(), dt.Label())
			} else if dt.HasTag("testonly") && !t.HasTag("testonly") && !t.IsTest() {
				add("depends-on-testonly", t.Label(), dt.Label())
			}
		}
	}
	// overlapping outputs of targets not ordered by dependency (only meaningful on a DAG)
	hasCycle := false
	for _, d := range ds {
		if d.Kind == "cycle" {
			hasCycle = true
		}
	}
	if !hasCycle {
		anc := map[string]map[string]bool{}
		for _, t := range g.Targets {
			anc[t.Label()] = g.Closure([]string{t.Label()})
		}
		ordered := func(a, b string) bool { return anc[a][b] || anc[b][a] }
		for i := 0; i < len(g.Targets); i++ {
			for j := i + 1; j < len(g.Targets); j++ {
				a, b := g.Targets[i], g.Targets[j]
				if a.Label() == b.Label() || ordered(a.Label(), b.Label()) {
					continue
				}
				for _, oa := range allOutputs(a) {
					for _, ob := range allOutputs(b) {
						pa, pb := parseOutput(a.Pkg, oa), parseOutput(b.Pkg, ob)
						switch {
						case pa.typ == "docker" && pb.typ == "docker":
							if pa.id == pb.id {
								add("overlap:docker", a.Label(), b.Label())
							}
						case pa.typ == "docker" || pb.typ == "docker":
						case pa.typ == "file" && pb.typ == "file":
							if pa.path == pb.path {
								add("overlap:same-file", a.Label(), b.Label())
							}
						case pa.typ == "dir" && pb.typ == "dir":
							if within(pa.path, pb.path) || within(pb.path, pa.path) {
								add("overlap:nested-dirs", a.Label(), b.Label())
							}
						case pa.typ == "dir":
							if within(pb.path, pa.path) {
								add("overlap:file-in-dir", a.Label(), b.Label())
							}
						default:
							if within(pa.path, pb.path) {
								add("overlap:file-in-dir", a.Label(), b.Label())
							}
						}
					}
				}
			}
		}
	}
	return ds
}

func allOutputs(t wsgen.Target) []string {
	outs := append([]string{}, t.Outputs...)
	if t.Bin != "" {
		outs = append(outs, t.Bin)
	}
	return outs
}
