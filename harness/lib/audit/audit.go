// Package audit inspects a grog cache (a local cache directory or any key->bytes
// store such as the fake object store) offline: every blob under a content digest
// must have exactly that content, every target result must decode, carry its
// own key, and reference only blobs that are present (file digests, tree
// digests, every file node of every tree).
package audit

import (
	"crypto/sha256"
	"encoding/hex"
	"fmt"
	"os"
	"path/filepath"
	"sort"
	"strings"

	"github.com/zeebo/xxh3"
	"google.golang.org/protobuf/proto"

	"grog/internal/proto/gen"
)

// Store is a flat view of a cache: "cas/<digest>" and "target/<key>" -> content.
type Store map[string][]byte

// LoadDir reads <cacheDir>/{cas,target}/* (temporary files of interrupted writes are not visible under any key and are skipped).
func LoadDir(cacheDir string) (Store, error) {
	st := Store{}
	for _, sub := range []string{"cas", "target"} {
		entries, err := os.ReadDir(filepath.Join(cacheDir, sub))
		if err != nil {
			if os.IsNotExist(err) {
				continue
			}
			if fi, serr := os.Stat(filepath.Join(cacheDir, sub)); serr == nil && !fi.IsDir() {
				continue // a fault plan replaced the directory by a file
			}
			return nil, err
		}
		for _, e := range entries {
			if e.IsDir() || strings.HasPrefix(e.Name(), "tmp-") || strings.HasSuffix(e.Name(), ".tmp") {
				continue
			}
			data, err := os.ReadFile(filepath.Join(cacheDir, sub, e.Name()))
			if err != nil {
				return nil, err
			}
			st[sub+"/"+e.Name()] = data
		}
	}
	return st, nil
}

func hashOf(data []byte, digestLen int) string {
	if digestLen == 64 {
		s := sha256.Sum256(data)
		return hex.EncodeToString(s[:])
	}
	h := xxh3.Hash128(data)
	return fmt.Sprintf("%016x%016x", h.Hi, h.Lo)
}

type Problem struct {
	Kind string // blob-content-mismatch | target-undecodable | target-key-mismatch | dangling-reference
	Msg  string
}

// Check audits the store. The hash algorithm is inferred per blob from the digest length (32 hex = xxh3-128, 64 = sha256).
func Check(st Store) []Problem {
	var ps []Problem
	keys := make([]string, 0, len(st))
	for k := range st {
		keys = append(keys, k)
	}
	sort.Strings(keys)
	has := func(d string) bool { _, ok := st["cas/"+d]; return ok }
	for _, k := range keys {
		data := st[k]
		switch {
		case strings.HasPrefix(k, "cas/"):
			d := strings.TrimPrefix(k, "cas/")
			if len(d) != 32 && len(d) != 64 {
				continue
			}
			if got := hashOf(data, len(d)); got != d {
				ps = append(ps, Problem{"blob-content-mismatch", fmt.Sprintf("blob %s (%d bytes) hashes to %s", d, len(data), got)})
			}
		case strings.HasPrefix(k, "target/"):
			key := strings.TrimPrefix(k, "target/")
			var tr gen.TargetResult
			if err := proto.Unmarshal(data, &tr); err != nil {
				ps = append(ps, Problem{"target-undecodable", fmt.Sprintf("target result %s (%d bytes): %v", key, len(data), err)})
				continue
			}
			if tr.ChangeHash != key {
				ps = append(ps, Problem{"target-key-mismatch", fmt.Sprintf("target result stored under %s says change_hash=%s", key, tr.ChangeHash)})
			}
			for _, o := range tr.Outputs {
				switch kind := o.Kind.(type) {
				case *gen.Output_File:
					if d := kind.File.GetDigest().GetHash(); !has(d) {
						ps = append(ps, Problem{"dangling-reference", fmt.Sprintf("target result %s references file blob %s (%s) which is not in the store", key, d, kind.File.GetPath())})
					}
				case *gen.Output_Directory:
					td := kind.Directory.GetTreeDigest().GetHash()
					if !has(td) {
						ps = append(ps, Problem{"dangling-reference", fmt.Sprintf("target result %s references tree blob %s (%s) which is not in the store", key, td, kind.Directory.GetPath())})
						continue
					}
					var tree gen.Tree
					if err := proto.Unmarshal(st["cas/"+td], &tree); err != nil {
						ps = append(ps, Problem{"target-undecodable", fmt.Sprintf("tree %s of target result %s: %v", td, key, err)})
						continue
					}
					dirs := append([]*gen.Directory{tree.Root}, tree.Children...)
					for _, dir := range dirs {
						for _, f := range dir.GetFiles() {
							if d := f.GetDigest().GetHash(); !has(d) {
								ps = append(ps, Problem{"dangling-reference", fmt.Sprintf("tree %s (target result %s) references file blob %s (%s) which is not in the store", td, key, d, f.GetName())})
							}
						}
					}
				}
			}
		}
	}
	return ps
}
