// Package wsgen generates build graphs and whole workspaces as pure data.
package wsgen

import (
	"fmt"
	"sort"
	"strings"

	"grog/internal/label"
	"grog/internal/model"
	"grog/internal/output"

	"pgregory.net/rapid"
)

type Check struct {
	Command  string `json:"command"`
	Expected string `json:"expected_output,omitempty"`
}

type Target struct {
	Pkg         string            `json:"pkg"`
	Name        string            `json:"name"`
	Command     string            `json:"command,omitempty"`
	Deps        []string          `json:"deps,omitempty"` // absolute labels, possibly of aliases
	Inputs      []string          `json:"inputs,omitempty"`
	Excludes    []string          `json:"exclude_inputs,omitempty"`
	Outputs     []string          `json:"outputs,omitempty"`
	Bin         string            `json:"bin_output,omitempty"`
	Tags        []string          `json:"tags,omitempty"`
	Platforms   []string          `json:"platforms,omitempty"`
	Fingerprint map[string]string `json:"fingerprint,omitempty"`
	Timeout     string            `json:"timeout,omitempty"`
	Checks      []Check           `json:"output_checks,omitempty"`
	Env         map[string]string `json:"environment_variables,omitempty"`
	File        string            `json:"file,omitempty"` // BUILD file flavour that declares it: "" = BUILD.json, "yaml" = BUILD.yaml
}

type Alias struct {
	Pkg    string `json:"pkg"`
	Name   string `json:"name"`
	Actual string `json:"actual"`
	File   string `json:"file,omitempty"`
}

type Graph struct {
	Targets []Target `json:"targets"`
	Aliases []Alias  `json:"aliases,omitempty"`
}

func Label(pkg, name string) string { return "//" + pkg + ":" + name }
func (t Target) Label() string      { return Label(t.Pkg, t.Name) }
func (a Alias) Label() string       { return Label(a.Pkg, a.Name) }
func (t Target) IsTest() bool       { return strings.HasSuffix(t.Name, "test") }
func (t Target) HasTag(tag string) bool {
	for _, x := range t.Tags {
		if x == tag {
			return true
		}
	}
	return false
}

// ParseLabel splits an absolute "//pkg:name" label produced by this package.
func ParseLabel(l string) (pkg, name string) {
	body := strings.TrimPrefix(l, "//")
	i := strings.LastIndex(body, ":")
	return body[:i], body[i+1:]
}

func TL(l string) label.TargetLabel {
	p, n := ParseLabel(l)
	return label.TargetLabel{Package: p, Name: n}
}

// Resolve follows alias chains to the target label (returns "" on a dangling or cyclic chain).
func (g Graph) Resolve(l string) string {
	aliases := map[string]string{}
	for _, a := range g.Aliases {
		aliases[a.Label()] = a.Actual
	}
	for i := 0; i <= len(g.Aliases); i++ {
		next, ok := aliases[l]
		if !ok {
			return l
		}
		l = next
	}
	return ""
}

func (g Graph) TargetByLabel() map[string]*Target {
	m := map[string]*Target{}
	for i := range g.Targets {
		m[g.Targets[i].Label()] = &g.Targets[i]
	}
	return m
}

// NodeDeps returns the dependency edges of the node graph (aliases are nodes): label -> direct dependency labels.
func (g Graph) NodeDeps() map[string][]string {
	m := map[string][]string{}
	for _, t := range g.Targets {
		m[t.Label()] = append([]string{}, t.Deps...)
	}
	for _, a := range g.Aliases {
		m[a.Label()] = []string{a.Actual}
	}
	return m
}

// Closure returns seeds plus everything reachable over dependency edges (aliases as nodes).
func (g Graph) Closure(seeds []string) map[string]bool {
	deps := g.NodeDeps()
	seen := map[string]bool{}
	stack := append([]string{}, seeds...)
	for len(stack) > 0 {
		l := stack[len(stack)-1]
		stack = stack[:len(stack)-1]
		if seen[l] {
			continue
		}
		seen[l] = true
		stack = append(stack, deps[l]...)
	}
	return seen
}

// TargetDeps returns, per target label, the labels of the targets it directly depends on with aliases resolved.
func (g Graph) TargetDeps() map[string][]string {
	m := map[string][]string{}
	for _, t := range g.Targets {
		seen := map[string]bool{}
		for _, d := range t.Deps {
			r := g.Resolve(d)
			if r != "" && !seen[r] {
				seen[r] = true
				m[t.Label()] = append(m[t.Label()], r)
			}
		}
		sort.Strings(m[t.Label()])
	}
	return m
}

// Nodes builds grog's in-memory node map directly (no BUILD files involved).
func (g Graph) Nodes() (model.BuildNodeMap, error) {
	nodes := model.BuildNodeMap{}
	for _, t := range g.Targets {
		outs, err := output.ParseOutputs(t.Outputs)
		if err != nil {
			return nil, err
		}
		mt := &model.Target{
			Label:       label.TargetLabel{Package: t.Pkg, Name: t.Name},
			Command:     t.Command,
			Inputs:      append([]string{}, t.Inputs...),
			Outputs:     outs,
			Tags:        append([]string{}, t.Tags...),
			Platforms:   append([]string(nil), t.Platforms...),
			Fingerprint: t.Fingerprint,
		}
		if t.Bin != "" {
			mt.BinOutput = model.NewOutput("file", t.Bin)
		}
		for _, d := range t.Deps {
			mt.Dependencies = append(mt.Dependencies, TL(d))
		}
		if _, dup := nodes[mt.Label]; dup {
			return nil, fmt.Errorf("duplicate label %s", mt.Label)
		}
		nodes[mt.Label] = mt
	}
	for _, a := range g.Aliases {
		ma := &model.Alias{Label: label.TargetLabel{Package: a.Pkg, Name: a.Name}, Actual: TL(a.Actual)}
		if _, dup := nodes[ma.Label]; dup {
			return nil, fmt.Errorf("duplicate label %s", ma.Label)
		}
		nodes[ma.Label] = ma
	}
	return nodes, nil
}

// GraphOpts steers GenGraph.
type GraphOpts struct {
	MinTargets, MaxTargets int
	Pkgs                   []string
	Names                  []string
	Tests                  bool     // allow *_test targets
	Tags                   []string // tag pool (may include no-cache etc.)
	Platforms              bool
	AliasPct               int // percentage of edges routed through an alias chain
	FreeAliases            int // up to this many aliases nobody depends on
	EdgePct                int
}

var DefaultPkgs = []string{"", "a", "a/b", "ab", "c/d"}
var DefaultNames = []string{"t0", "t1", "t2", "t3", "t4", "a", "b", "ab", "d", "lib"}

// GenGraph draws a valid acyclic graph: edges only go from later to earlier
// targets, non-test targets never depend on test targets, labels are unique.
func GenGraph(t *rapid.T, o GraphOpts) Graph {
	if o.Pkgs == nil {
		o.Pkgs = DefaultPkgs
	}
	if o.Names == nil {
		o.Names = DefaultNames
	}
	if o.MaxTargets == 0 {
		o.MaxTargets = 8
	}
	if o.MinTargets == 0 {
		o.MinTargets = 1
	}
	if o.EdgePct == 0 {
		o.EdgePct = 35
	}
	var g Graph
	used := map[string]bool{}
	n := rapid.IntRange(o.MinTargets, o.MaxTargets).Draw(t, "ntargets")
	aliasN := 0
	for i := 0; i < n; i++ {
		var tg Target
		for try := 0; ; try++ {
			tg.Pkg = rapid.SampledFrom(o.Pkgs).Draw(t, "pkg")
			tg.Name = rapid.SampledFrom(o.Names).Draw(t, "name")
			if o.Tests && rapid.IntRange(0, 3).Draw(t, "istest") == 0 {
				tg.Name += "_test"
			}
			if try > 6 {
				tg.Name = fmt.Sprintf("%s%d", tg.Name, i)
			}
			if !used[tg.Label()] {
				break
			}
		}
		used[tg.Label()] = true
		for _, tag := range o.Tags {
			if rapid.IntRange(0, 3).Draw(t, "tag") == 0 {
				tg.Tags = append(tg.Tags, tag)
			}
		}
		if o.Platforms {
			switch rapid.IntRange(0, 5).Draw(t, "platforms") {
			case 0:
				tg.Platforms = []string{"linux/amd64"}
			case 1:
				tg.Platforms = []string{"darwin/arm64"}
			case 2:
				tg.Platforms = []string{"linux/amd64", "darwin/arm64"}
			}
		}
		for j := 0; j < i; j++ {
			dep := g.Targets[j]
			if rapid.IntRange(0, 99).Draw(t, "edge") >= o.EdgePct {
				continue
			}
			if dep.IsTest() && !tg.IsTest() {
				continue
			}
			if dep.HasTag("testonly") && !tg.HasTag("testonly") && !tg.IsTest() {
				continue
			}
			l := dep.Label()
			if rapid.IntRange(0, 99).Draw(t, "viaalias") < o.AliasPct {
				chain := rapid.IntRange(1, 2).Draw(t, "chain")
				for k := 0; k < chain; k++ {
					a := Alias{Pkg: rapid.SampledFrom(o.Pkgs).Draw(t, "aliaspkg"), Name: fmt.Sprintf("al%d", aliasN), Actual: l}
					aliasN++
					used[a.Label()] = true
					g.Aliases = append(g.Aliases, a)
					l = a.Label()
				}
			}
			tg.Deps = append(tg.Deps, l)
		}
		g.Targets = append(g.Targets, tg)
	}
	if o.FreeAliases > 0 {
		k := rapid.IntRange(0, o.FreeAliases).Draw(t, "freealiases")
		for i := 0; i < k; i++ {
			var actual string
			if len(g.Aliases) > 0 && rapid.IntRange(0, 3).Draw(t, "alias-to-alias") == 0 {
				actual = g.Aliases[rapid.IntRange(0, len(g.Aliases)-1).Draw(t, "which")].Label()
			} else {
				actual = g.Targets[rapid.IntRange(0, len(g.Targets)-1).Draw(t, "which")].Label()
			}
			a := Alias{Pkg: rapid.SampledFrom(o.Pkgs).Draw(t, "aliaspkg"), Name: fmt.Sprintf("fa%d", i), Actual: actual}
			if rapid.IntRange(0, 4).Draw(t, "aliasname") == 0 {
				// an alias whose name allows the //pkg shorthand
				if p := a.Pkg; p != "" {
					segs := strings.Split(p, "/")
					a.Name = segs[len(segs)-1]
				}
			}
			if used[a.Label()] {
				continue
			}
			used[a.Label()] = true
			g.Aliases = append(g.Aliases, a)
		}
	}
	return g
}
