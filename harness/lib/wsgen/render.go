package wsgen

import (
	"encoding/json"
	"os"
	"path/filepath"
	"sort"
)

type buildTarget struct {
	Name         string            `json:"name"`
	Command      string            `json:"command,omitempty"`
	Dependencies []string          `json:"dependencies,omitempty"`
	Inputs       []string          `json:"inputs,omitempty"`
	Excludes     []string          `json:"exclude_inputs,omitempty"`
	Outputs      []string          `json:"outputs,omitempty"`
	Bin          string            `json:"bin_output,omitempty"`
	Tags         []string          `json:"tags,omitempty"`
	Platforms    []string          `json:"platforms,omitempty"`
	Fingerprint  map[string]string `json:"fingerprint,omitempty"`
	Timeout      string            `json:"timeout,omitempty"`
	Checks       []Check           `json:"output_checks,omitempty"`
	Env          map[string]string `json:"environment_variables,omitempty"`
}

type buildAlias struct {
	Name   string `json:"name"`
	Actual string `json:"actual"`
}

type buildFile struct {
	Targets []buildTarget `json:"targets"`
	Aliases []buildAlias  `json:"aliases,omitempty"`
}

// BuildFiles renders the graph into BUILD files: workspace-relative path -> content.
// JSON text is used for BUILD.yaml as well (JSON is a YAML subset).
func (g Graph) BuildFiles() map[string]string {
	files := map[string]*buildFile{}
	get := func(pkg, flavour string) *buildFile {
		name := "BUILD.json"
		if flavour == "yaml" {
			name = "BUILD.yaml"
		}
		p := filepath.Join(pkg, name)
		if files[p] == nil {
			files[p] = &buildFile{Targets: []buildTarget{}}
		}
		return files[p]
	}
	for _, t := range g.Targets {
		f := get(t.Pkg, t.File)
		f.Targets = append(f.Targets, buildTarget{Name: t.Name, Command: t.Command, Dependencies: t.Deps, Inputs: t.Inputs, Excludes: t.Excludes,
			Outputs: t.Outputs, Bin: t.Bin, Tags: t.Tags, Platforms: t.Platforms, Fingerprint: t.Fingerprint, Timeout: t.Timeout, Checks: t.Checks, Env: t.Env})
	}
	for _, a := range g.Aliases {
		f := get(a.Pkg, a.File)
		f.Aliases = append(f.Aliases, buildAlias{Name: a.Name, Actual: a.Actual})
	}
	out := map[string]string{}
	for p, f := range files {
		b, _ := json.MarshalIndent(f, "", " ")
		out[p] = string(b)
	}
	return out
}

// WriteTree writes files (workspace-relative path -> content) below root, creating directories.
func WriteTree(root string, files map[string]string) error {
	paths := make([]string, 0, len(files))
	for p := range files {
		paths = append(paths, p)
	}
	sort.Strings(paths)
	for _, p := range paths {
		full := filepath.Join(root, p)
		if err := os.MkdirAll(filepath.Dir(full), 0o755); err != nil {
			return err
		}
		if err := os.WriteFile(full, []byte(files[p]), 0o644); err != nil {
			return err
		}
	}
	return nil
}
