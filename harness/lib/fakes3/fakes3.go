// Package fakes3 is a loopback HTTP endpoint that speaks just enough path-style
// S3 (PUT / GET / HEAD / DELETE on /<bucket>/<key>) for grog's S3 backend, with
// an object map that the test can inspect and a per-request fault plan.
package fakes3

import (
	"fmt"
	"io"
	"net"
	"net/http"
	"sort"
	"strings"
	"sync"
)

// Fault: the Nth request (0-based, counted per method since the plan was installed) of Method gets Action.
type Fault struct {
	Method string `json:"method"` // GET | PUT | HEAD
	Nth    int    `json:"nth"`
	Action string `json:"action"` // 500 | 404 | truncate | reset
}

type Request struct {
	Method string
	Key    string
	Status int
}

type Server struct {
	mu      sync.Mutex
	objects map[string][]byte
	plan    []Fault
	counts  map[string]int
	log     []Request
	ln      net.Listener
	srv     *http.Server
}

func Start() (*Server, error) {
	ln, err := net.Listen("tcp", "127.0.0.1:0")
	if err != nil {
		return nil, err
	}
	s := &Server{objects: map[string][]byte{}, counts: map[string]int{}, ln: ln}
	s.srv = &http.Server{Handler: http.HandlerFunc(s.handle)}
	go s.srv.Serve(ln)
	return s, nil
}

func (s *Server) URL() string { return "http://" + s.ln.Addr().String() }
func (s *Server) Close()      { _ = s.srv.Close() }

// Env returns the environment a grog process needs to reach this endpoint.
func (s *Server) Env() []string {
	return []string{"AWS_ENDPOINT_URL=" + s.URL(), "AWS_ACCESS_KEY_ID=k", "AWS_SECRET_ACCESS_KEY=s", "AWS_REGION=us-east-1",
		"AWS_EC2_METADATA_DISABLED=true", "AWS_MAX_ATTEMPTS=1", "AWS_REQUEST_CHECKSUM_CALCULATION=when_required", "AWS_RESPONSE_CHECKSUM_VALIDATION=when_required"}
}

func (s *Server) SetPlan(plan []Fault) {
	s.mu.Lock()
	defer s.mu.Unlock()
	s.plan = append([]Fault{}, plan...)
	s.counts = map[string]int{}
}

func (s *Server) TakeLog() []Request {
	s.mu.Lock()
	defer s.mu.Unlock()
	l := s.log
	s.log = nil
	return l
}

// Objects returns a copy of the store: "<bucket>/<key>" -> content.
func (s *Server) Objects() map[string][]byte {
	s.mu.Lock()
	defer s.mu.Unlock()
	out := make(map[string][]byte, len(s.objects))
	for k, v := range s.objects {
		out[k] = append([]byte{}, v...)
	}
	return out
}

func (s *Server) Keys() []string {
	s.mu.Lock()
	defer s.mu.Unlock()
	var ks []string
	for k := range s.objects {
		ks = append(ks, k)
	}
	sort.Strings(ks)
	return ks
}

func (s *Server) Delete(key string) {
	s.mu.Lock()
	defer s.mu.Unlock()
	delete(s.objects, key)
}

func (s *Server) faultFor(method string) string {
	n := s.counts[method]
	s.counts[method]++
	for _, f := range s.plan {
		if f.Method == method && f.Nth == n {
			return f.Action
		}
	}
	return ""
}

func (s *Server) handle(w http.ResponseWriter, r *http.Request) {
	key := strings.TrimPrefix(r.URL.Path, "/")
	var body []byte
	if r.Method == http.MethodPut {
		body, _ = io.ReadAll(r.Body)
	}
	s.mu.Lock()
	action := s.faultFor(r.Method)
	data, exists := s.objects[key]
	status := 200
	switch {
	case action == "500":
		status = 500
	case action == "reset":
		status = -1
	case action == "404":
		status = 404
	case r.Method == http.MethodPut:
		s.objects[key] = body
	case r.Method == http.MethodDelete:
		delete(s.objects, key)
		status = 204
	case (r.Method == http.MethodGet || r.Method == http.MethodHead) && !exists:
		status = 404
	}
	s.log = append(s.log, Request{Method: r.Method, Key: key, Status: status})
	s.mu.Unlock()

	switch {
	case status == -1:
		if hj, ok := w.(http.Hijacker); ok {
			if conn, _, err := hj.Hijack(); err == nil {
				conn.Close()
				return
			}
		}
		w.WriteHeader(500)
	case status == 500:
		w.Header().Set("Content-Type", "application/xml")
		w.WriteHeader(500)
		fmt.Fprint(w, `<?xml version="1.0" encoding="UTF-8"?><Error><Code>InternalError</Code><Message>injected</Message></Error>`)
	case status == 404:
		w.Header().Set("Content-Type", "application/xml")
		w.WriteHeader(404)
		if r.Method != http.MethodHead {
			fmt.Fprint(w, `<?xml version="1.0" encoding="UTF-8"?><Error><Code>NoSuchKey</Code><Message>The specified key does not exist.</Message></Error>`)
		}
	case r.Method == http.MethodGet && action == "truncate":
		// full Content-Length, half of the body, then the connection drops
		if hj, ok := w.(http.Hijacker); ok {
			if conn, buf, err := hj.Hijack(); err == nil {
				fmt.Fprintf(buf, "HTTP/1.1 200 OK\r\nContent-Length: %d\r\nContent-Type: application/octet-stream\r\n\r\n", len(data))
				buf.Write(data[:len(data)/2])
				buf.Flush()
				conn.Close()
				return
			}
		}
		w.WriteHeader(500)
	case r.Method == http.MethodGet:
		w.Header().Set("Content-Length", fmt.Sprint(len(data)))
		w.Header().Set("ETag", `"x"`)
		w.WriteHeader(200)
		w.Write(data)
	case r.Method == http.MethodHead:
		w.Header().Set("Content-Length", fmt.Sprint(len(data)))
		w.Header().Set("ETag", `"x"`)
		w.WriteHeader(200)
	case r.Method == http.MethodPut:
		w.Header().Set("ETag", `"x"`)
		w.WriteHeader(200)
	default:
		w.WriteHeader(status)
	}
}
