// Package treegen: directory-tree generator, materialiser and recursive listing shared by the output checks.
package treegen

import (
	"crypto/sha256"
	"encoding/hex"
	"fmt"
	"os"
	"path/filepath"
	"sort"
	"strings"

	"pgregory.net/rapid"
)

type Node struct {
	Name     string `json:"name"`
	Kind     string `json:"kind"` // file | dir | symlink
	Content  string `json:"content,omitempty"`
	Exec     bool   `json:"exec,omitempty"`
	Target   string `json:"target,omitempty"`
	Children []Node `json:"children,omitempty"`
}

func Listing(root string) (map[string]string, error) {
	out := map[string]string{}
	info, err := os.Lstat(root)
	if err != nil {
		return nil, err
	}
	var walk func(p, rel string, info os.FileInfo) error
	walk = func(p, rel string, info os.FileInfo) error {
		switch {
		case info.Mode()&os.ModeSymlink != 0:
			tgt, err := os.Readlink(p)
			if err != nil {
				return err
			}
			out[rel] = "symlink -> " + tgt
		case info.IsDir():
			out[rel] = "dir"
			entries, err := os.ReadDir(p)
			if err != nil {
				return err
			}
			for _, e := range entries {
				ei, err := e.Info()
				if err != nil {
					return err
				}
				if err := walk(filepath.Join(p, e.Name()), rel+"/"+e.Name(), ei); err != nil {
					return err
				}
			}
		default:
			data, err := os.ReadFile(p)
			if err != nil {
				return err
			}
			sum := sha256.Sum256(data)
			out[rel] = fmt.Sprintf("file exec=%v size=%d sha=%s", info.Mode()&0o111 != 0, len(data), hex.EncodeToString(sum[:8]))
		}
		return nil
	}
	return out, walk(root, ".", info)
}

func DiffListings(want, got map[string]string) string {
	var d []string
	for k, v := range want {
		if g, ok := got[k]; !ok {
			d = append(d, fmt.Sprintf("missing %s (%s)", k, v))
		} else if g != v {
			d = append(d, fmt.Sprintf("%s: want %s got %s", k, v, g))
		}
	}
	for k, v := range got {
		if _, ok := want[k]; !ok {
			d = append(d, fmt.Sprintf("extra %s (%s)", k, v))
		}
	}
	sort.Strings(d)
	return strings.Join(d, "; ")
}

func WriteTree(dir string, nodes []Node) error {
	if err := os.MkdirAll(dir, 0o755); err != nil {
		return err
	}
	for _, n := range nodes {
		p := filepath.Join(dir, n.Name)
		switch n.Kind {
		case "dir":
			if err := WriteTree(p, n.Children); err != nil {
				return err
			}
		case "symlink":
			if err := os.Symlink(n.Target, p); err != nil {
				return err
			}
		default:
			mode := os.FileMode(0o644)
			if n.Exec {
				mode = 0o755
			}
			if err := os.WriteFile(p, []byte(n.Content), mode); err != nil {
				return err
			}
			if err := os.Chmod(p, mode); err != nil {
				return err
			}
		}
	}
	return nil
}

var entryNames = []string{"a", "b", "c", "a b", "-x", "ünï", "tmp-1", "sub", "x.txt", "Makefile", ".hidden", strings.Repeat("n", 200), "z"}
var fileContents = []string{"", "x", "same", "same", "samf", "line1\nline2\n", strings.Repeat("blob", 2000), "\x00\x01\xff"}
var linkTargets = []string{"a", "nope", "sub", "..", "../escape", "/etc/hostname", "./b"}

func GenTree(t *rapid.T, depth int) []Node {
	n := rapid.IntRange(0, 4).Draw(t, "fanout")
	names := rapid.SliceOfNDistinct(rapid.SampledFrom(entryNames), n, n, rapid.ID[string]).Draw(t, "names")
	var nodes []Node
	for _, name := range names {
		k := rapid.IntRange(0, 9).Draw(t, "kind")
		switch {
		case k <= 4:
			nodes = append(nodes, Node{Name: name, Kind: "file", Content: rapid.SampledFrom(fileContents).Draw(t, "content"), Exec: rapid.IntRange(0, 2).Draw(t, "exec") == 0})
		case k <= 7 && depth > 0:
			nodes = append(nodes, Node{Name: name, Kind: "dir", Children: GenTree(t, depth-1)})
		case k <= 7:
			nodes = append(nodes, Node{Name: name, Kind: "dir"})
		default:
			nodes = append(nodes, Node{Name: name, Kind: "symlink", Target: rapid.SampledFrom(linkTargets).Draw(t, "link")})
		}
	}
	return nodes
}
