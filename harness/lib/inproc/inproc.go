// Package inproc assembles a grog build in-process exactly as cmds.RunBuild does (load, graph, constraints,
// selection, cache backend, executor), but over a CacheBackend that the caller may decorate — which is what
// lets a check number the backend operations of a build and inject a fault or a crash at operation n.
package inproc

import (
	"context"
	"fmt"

	"grog/internal/analysis"
	"grog/internal/caching"
	"grog/internal/caching/backends"
	"grog/internal/config"
	"grog/internal/console"
	"grog/internal/execution"
	"grog/internal/label"
	"grog/internal/loading"
	"grog/internal/model"
	"grog/internal/output"
	"grog/internal/selection"
)

type Result struct {
	Failed    []string // labels of failed targets
	Succeeded int
	Err       error // error outside target execution (loading, selection, walk)
}

// Build runs `grog build //...` on the workspace at ws with the cache root at root.
func Build(ws, root string, workers int, algo string, decorate func(backends.CacheBackend) backends.CacheBackend) Result {
	config.Global = config.WorkspaceConfig{WorkspaceRoot: ws, Root: root, NumWorkers: workers, EnableCache: true, LoadOutputs: "all", OS: "linux", Arch: "amd64",
		LogLevel: "error", HashAlgorithm: algo, DisableNonDeterministicLogging: true, DisableProgressTracker: true}
	ctx := context.Background()
	logger := console.GetLogger(ctx)
	pkgs, err := loading.LoadPackages(ctx, ws)
	if err != nil {
		return Result{Err: fmt.Errorf("load: %w", err)}
	}
	nodes, err := model.BuildNodeMapFromPackages(pkgs)
	if err != nil {
		return Result{Err: err}
	}
	graph, err := analysis.BuildGraph(nodes)
	if err != nil {
		return Result{Err: err}
	}
	if errs := analysis.CheckTargetConstraints(logger, nodes); len(errs) > 0 {
		return Result{Err: fmt.Errorf("constraints: %v", errs)}
	}
	sel := selection.New([]label.TargetPattern{label.GetMatchAllTargetPattern()}, nil, nil, selection.NonTestOnly)
	if _, _, err := sel.SelectTargetsForBuild(graph); err != nil {
		return Result{Err: err}
	}
	fs, err := backends.NewFileSystemCache(ctx)
	if err != nil {
		return Result{Err: err}
	}
	var backend backends.CacheBackend = fs
	if decorate != nil {
		backend = decorate(fs)
	}
	registry := output.NewRegistry(ctx, caching.NewCas(backend))
	executor := execution.NewExecutor(caching.NewTargetResultCache(backend), caching.NewTaintCache(backend), registry, graph, false, false, true, config.LoadOutputsAll)
	completions, err := executor.Execute(ctx)
	res := Result{Err: err}
	for l, c := range completions {
		if c.NodeType != model.TargetNode {
			continue
		}
		if c.IsSuccess {
			res.Succeeded++
		} else {
			res.Failed = append(res.Failed, l.String())
		}
	}
	return res
}
