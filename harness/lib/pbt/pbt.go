// Package pbt is the thin layer between a property (generator + executable
// oracle over a pure-data case) and the /verif driver: it runs the property
// under rapid (or over an explicit enumeration), classifies and counts cases,
// keeps samples, writes a write-ahead copy of the case that is about to run
// (so a process-killing fault still leaves the case behind), maps violations to
// signatures (known findings do not stop the search) and replays a saved case
// without any generator library in the loop.
package pbt

import (
	"crypto/sha256"
	"encoding/binary"
	"encoding/json"
	"fmt"
	"os"
	"path/filepath"
	"runtime"
	"sort"
	"strings"
	"sync"
	"testing"

	"pgregory.net/rapid"
)

// Result describes one executed case.
type Result struct {
	NonTrivial bool
	Classes    []string
	// Discard marks a case that turned out to be outside the property's
	// domain (counted separately, never a pass and never a violation).
	Discard bool
}

// Violation is the error a property returns when the oracle fails.
type Violation struct {
	Sig string // canonical root-cause signature, matched against known_findings.jsonl
	Msg string
}

func (v *Violation) Error() string { return v.Sig + ": " + v.Msg }

// Fail builds a violation.
func Fail(sig, format string, args ...any) error {
	return &Violation{Sig: sig, Msg: fmt.Sprintf(format, args...)}
}

// Spec is one property.
type Spec[C any] struct {
	ID  string
	Gen func(t *rapid.T) C
	Run func(c C) (Result, error)
	// WAL makes the runner write each case to wal.json before executing it, for
	// properties whose failure mode can kill the process (fatal error, os.Exit).
	WAL bool
}

// safeRun converts a panic on the calling goroutine into a violation.
func safeRun[C any](s Spec[C], c C) (res Result, err error) {
	defer func() {
		if p := recover(); p != nil {
			buf := make([]byte, 8192)
			buf = buf[:runtime.Stack(buf, false)]
			err = &Violation{Sig: "panic", Msg: fmt.Sprintf("panic: %v\n%s", p, buf)}
		}
	}()
	return s.Run(c)
}

type knownEntry struct {
	Property  string `json:"property"`
	Signature string `json:"signature"`
	Status    string `json:"status"`
	What      string `json:"what"`
}

type recorder struct {
	mu          sync.Mutex
	id          string
	out         string
	evals       int
	discards    int
	nontrivial  int
	classes     map[string]int
	ntHashes    map[uint64]struct{}
	samples     []json.RawMessage // first few non-trivial
	smallest    json.RawMessage
	largest     json.RawMessage
	known       map[string]string // sig -> what
	knownHits   map[string]int
	knownSample map[string]json.RawMessage
	failing     bool
	minFail     []byte
	extra       map[string]int
}

func newRecorder(id string) *recorder {
	r := &recorder{
		id:          id,
		out:         os.Getenv("VERIF_OUT"),
		classes:     map[string]int{},
		ntHashes:    map[uint64]struct{}{},
		known:       map[string]string{},
		knownHits:   map[string]int{},
		knownSample: map[string]json.RawMessage{},
		extra:       map[string]int{},
	}
	if r.out != "" {
		_ = os.MkdirAll(r.out, 0o755)
	}
	if p := os.Getenv("VERIF_KNOWN"); p != "" {
		if data, err := os.ReadFile(p); err == nil {
			for _, line := range strings.Split(string(data), "\n") {
				line = strings.TrimSpace(line)
				if line == "" {
					continue
				}
				var e knownEntry
				if json.Unmarshal([]byte(line), &e) == nil && e.Status == "known" && (e.Property == id || strings.HasPrefix(e.Signature, e.Property+":")) {
					r.known[e.Signature] = e.What
				}
			}
		}
	}
	return r
}

func (r *recorder) wal(data []byte) {
	if r.out == "" {
		return
	}
	_ = os.WriteFile(filepath.Join(r.out, "wal.json"), data, 0o644)
}

func hash64(data []byte) uint64 {
	s := sha256.Sum256(data)
	return binary.LittleEndian.Uint64(s[:8])
}

// record returns (isKnown, err) — err non-nil means an unlisted violation.
func (r *recorder) record(data []byte, res Result, err error) (bool, error) {
	r.mu.Lock()
	defer r.mu.Unlock()
	if err != nil {
		if v, ok := err.(*Violation); ok {
			if _, listed := r.known[v.Sig]; listed {
				r.knownHits[v.Sig]++
				if _, have := r.knownSample[v.Sig]; !have || len(data) < len(r.knownSample[v.Sig]) {
					r.knownSample[v.Sig] = append(json.RawMessage{}, data...)
				}
				r.evals++
				return true, nil
			}
		}
		r.failing = true
		if r.minFail == nil || len(data) < len(r.minFail) {
			r.minFail = append([]byte{}, data...)
			sig, msg := "unclassified", err.Error()
			if v, ok := err.(*Violation); ok {
				sig, msg = v.Sig, v.Msg
			}
			if r.out != "" {
				rec := map[string]any{"property": r.id, "signature": sig, "message": msg, "case": json.RawMessage(data)}
				b, _ := json.MarshalIndent(rec, "", " ")
				_ = os.WriteFile(filepath.Join(r.out, "fail.json"), b, 0o644)
			}
		}
		return false, err
	}
	if r.failing {
		return false, nil // shrink candidates that pass are not part of the evidence
	}
	if res.Discard {
		r.discards++
		return false, nil
	}
	r.evals++
	for _, c := range res.Classes {
		r.classes[c]++
	}
	if res.NonTrivial {
		r.nontrivial++
		h := hash64(data)
		if _, seen := r.ntHashes[h]; !seen {
			r.ntHashes[h] = struct{}{}
			if len(r.samples) < 2 && len(data) < 20000 {
				r.samples = append(r.samples, append(json.RawMessage{}, data...))
			}
			if r.smallest == nil || len(data) < len(r.smallest) {
				r.smallest = append(json.RawMessage{}, data...)
			}
			if (r.largest == nil || len(data) > len(r.largest)) && len(data) < 20000 {
				r.largest = append(json.RawMessage{}, data...)
			}
		}
	}
	return false, nil
}

// Count adds to a free-form counter that ends up in the evidence (e.g. excluded draws).
var current *recorder

func Count(key string, n int) {
	if current == nil {
		return
	}
	current.mu.Lock()
	current.extra[key] += n
	current.mu.Unlock()
}

func (r *recorder) flush() {
	if r.out == "" {
		fmt.Printf("pbt %s: evals=%d nontrivial=%d distinct_nt=%d discards=%d classes=%v known=%v extra=%v\n",
			r.id, r.evals, r.nontrivial, len(r.ntHashes), r.discards, r.classes, r.knownHits, r.extra)
		return
	}
	r.mu.Lock()
	defer r.mu.Unlock()
	samples := append([]json.RawMessage{}, r.samples...)
	if r.smallest != nil {
		samples = append(samples, r.smallest)
	}
	if r.largest != nil {
		samples = append(samples, r.largest)
	}
	known := []map[string]any{}
	sigs := make([]string, 0, len(r.knownHits))
	for s := range r.knownHits {
		sigs = append(sigs, s)
	}
	sort.Strings(sigs)
	for _, s := range sigs {
		known = append(known, map[string]any{"signature": s, "hits": r.knownHits[s], "what": r.known[s], "sample": r.knownSample[s]})
	}
	sum := map[string]any{
		"property":   r.id,
		"evals":      r.evals,
		"discards":   r.discards,
		"nontrivial": r.nontrivial,
		"classes":    r.classes,
		"samples":    samples,
		"known":      known,
		"failed":     r.failing,
		"extra":      r.extra,
	}
	b, _ := json.Marshal(sum)
	_ = os.WriteFile(filepath.Join(r.out, "summary.json"), b, 0o644)
	hb := make([]byte, 0, 8*len(r.ntHashes))
	for h := range r.ntHashes {
		hb = binary.LittleEndian.AppendUint64(hb, h)
	}
	_ = os.WriteFile(filepath.Join(r.out, "nt_hashes.bin"), hb, 0o644)
}

func replayInto[C any](path string) (C, []byte, error) {
	var c C
	data, err := os.ReadFile(path)
	if err != nil {
		return c, nil, err
	}
	// Accept either a bare case or a fail.json record with a "case" member.
	var wrapper struct {
		Case json.RawMessage `json:"case"`
	}
	if json.Unmarshal(data, &wrapper) == nil && len(wrapper.Case) > 0 {
		data = wrapper.Case
	}
	if err := json.Unmarshal(data, &c); err != nil {
		return c, nil, err
	}
	return c, data, nil
}

// Main runs the property: replay mode when VERIF_REPLAY is set, rapid otherwise.
func Main[C any](t *testing.T, s Spec[C]) {
	r := newRecorder(s.ID)
	current = r
	defer r.flush()

	if p := os.Getenv("VERIF_REPLAY"); p != "" {
		c, data, err := replayInto[C](p)
		if err != nil {
			t.Fatalf("replay: cannot load %s: %v", p, err)
		}
		res, rerr := safeRun(s, c)
		known, verr := r.record(data, res, rerr)
		if known {
			t.Logf("replay %s: known finding: %v", p, rerr)
		}
		if verr != nil {
			t.Fatalf("replay %s: %v", p, verr)
		}
		return
	}

	rapid.Check(t, func(rt *rapid.T) {
		c := s.Gen(rt)
		data, err := json.Marshal(c)
		if err != nil {
			rt.Fatalf("case not serialisable: %v", err)
		}
		if s.WAL {
			r.wal(data)
		}
		res, rerr := safeRun(s, c)
		_, verr := r.record(data, res, rerr)
		if verr != nil {
			rt.Fatalf("%v", verr)
		}
	})
}

// Enumerate runs the property over an explicit finite enumeration (no rapid).
// each must call yield for every case, smallest first, and stop when yield
// returns false. The first unlisted violation stops the enumeration.
func Enumerate[C any](t *testing.T, s Spec[C], each func(yield func(C) bool)) {
	r := newRecorder(s.ID)
	current = r
	defer r.flush()
	if p := os.Getenv("VERIF_REPLAY"); p != "" {
		c, data, err := replayInto[C](p)
		if err != nil {
			t.Fatalf("replay: cannot load %s: %v", p, err)
		}
		res, rerr := safeRun(s, c)
		if _, verr := r.record(data, res, rerr); verr != nil {
			t.Fatalf("replay %s: %v", p, verr)
		}
		return
	}
	var firstErr error
	each(func(c C) bool {
		data, _ := json.Marshal(c)
		if s.WAL {
			r.wal(data)
		}
		res, rerr := safeRun(s, c)
		if _, verr := r.record(data, res, rerr); verr != nil {
			firstErr = verr
			return false
		}
		return true
	})
	if firstErr != nil {
		t.Fatalf("%v", firstErr)
	}
}
