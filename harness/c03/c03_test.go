// C03 — dependencies first, each target once, at most num_workers at a time.
package c03

import (
	"fmt"
	"testing"

	"grog/verif/lib/pbt"
	"grog/verif/lib/walkeng"

	"pgregory.net/rapid"
)

var theT *testing.T

func runWith(virtual bool) func(c walkeng.Case) (pbt.Result, error) {
	return func(c walkeng.Case) (pbt.Result, error) {
		res := pbt.Result{Classes: []string{"shape:" + c.Shape, fmt.Sprintf("workers<=width:%v", c.Workers < c.WidthLowerBound())}}
		o := walkeng.Run(theT, c, virtual)
		if o.Hang != "" || o.Panic != "" {
			return res, pbt.Fail("walk-did-not-return", "%s%s", o.Hang, o.Panic)
		}
		if v := walkeng.CheckOrder(c, o); v != nil {
			return res, pbt.Fail(v.Sig, "%s", v.Msg)
		}
		// the completion map marks exactly the started-and-finished nodes
		for _, e := range o.Events {
			if e.Kind == "E" {
				if succ, ok := o.Completions[e.Node]; !ok || !succ {
					return res, pbt.Fail("finished-node-not-completed", "node %d finished but completion map says ok=%v success=%v", e.Node, ok, succ)
				}
			}
		}
		res.NonTrivial = c.HasJoinWithDistinctFinishTimes() && c.Workers < c.WidthLowerBound()
		return res, nil
	}
}

// TestBubble: virtual time — the harness owns the completion order.
func TestBubble(t *testing.T) {
	theT = t
	pbt.Main(t, pbt.Spec[walkeng.Case]{ID: "C03", WAL: true,
		Gen: func(t *rapid.T) walkeng.Case { return walkeng.Gen(t, walkeng.GenOpts{MaxN: 40}) },
		Run: runWith(true)})
}

// TestRace: the same graphs on the real scheduler (built with -race by the driver).
func TestRace(t *testing.T) {
	theT = t
	pbt.Main(t, pbt.Spec[walkeng.Case]{ID: "C03", WAL: true,
		Gen: func(t *rapid.T) walkeng.Case {
			return walkeng.Gen(t, walkeng.GenOpts{MaxN: 60, RealTime: true, ZeroBias: true})
		},
		Run: runWith(false)})
}
