package c03

// Part "binary": the same three invariants observed on the real grog binary. Commands carry S/E trace lines and
// sleep in between, wide graphs are built with fewer workers than their width, so overlap is forced rather than
// hoped for: the number of commands between S and E must never exceed num_workers, every S comes after the E of
// each dependency, nobody runs twice.

import (
	"fmt"
	"os"
	"sort"
	"strings"
	"testing"

	"grog/verif/lib/histeng"
	"grog/verif/lib/pbt"

	"pgregory.net/rapid"
)

func TestBinary(t *testing.T) {
	if os.Getenv("GROG_BIN") == "" {
		t.Skip("GROG_BIN not set")
	}
	pbt.Main(t, pbt.Spec[histeng.History]{ID: "C03",
		Gen: func(t *rapid.T) histeng.History {
			if rapid.IntRange(0, 5).Draw(t, "group-scenario") == 0 {
				// a grouping target above two dependencies, next to independent slow targets, fewer workers than runnable
				// commands: one dependency changes, the other one's blob is gone, everything else has to run as well. The group's
				// own task then re-runs the second dependency (load_outputs=minimal) - inside the worker bound.
				nx := rapid.IntRange(2, 4).Draw(t, "independent")
				w := histeng.WS{Files: map[string]string{"top.txt": "x", "a/top.txt": "y"}, Workers: rapid.IntRange(1, 2).Draw(t, "gworkers"), Algo: "xxh3"}
				w.Targets = append(w.Targets,
					histeng.Target{Pkg: "", Name: "d1", Inputs: []string{"top.txt"}, OutFiles: []string{"out/d1.txt"}, SlowMs: rapid.SampledFrom([]int{60, 150}).Draw(t, "d1slow")},
					histeng.Target{Pkg: "", Name: "d2", Inputs: []string{"top.txt"}, OutFiles: []string{"out/d2.txt"}, SlowMs: 250},
					histeng.Target{Pkg: "", Name: "grp", Deps: []string{"//:d1", "//:d2"}, NoCommand: true})
				h := histeng.History{WS: w}
				h.Steps = append(h.Steps, histeng.Step{Kind: "build", Build: &histeng.BuildOpts{Patterns: []string{"//..."}}})
				for i := 0; i < nx; i++ {
					h.WS.Targets = append(h.WS.Targets, histeng.Target{Pkg: "a", Name: fmt.Sprintf("x%d", i), Inputs: []string{"top.txt"}, OutFiles: []string{fmt.Sprintf("out/x%d.txt", i)}, SlowMs: 250})
				}
				h.Steps = append(h.Steps, histeng.Step{Kind: "fault-wipe-cas"}, histeng.Step{Kind: "bump-nonce", T: 0})
				for i := 0; i < nx; i++ {
					h.Steps = append(h.Steps, histeng.Step{Kind: "bump-nonce", T: 3 + i})
				}
				h.Steps = append(h.Steps, histeng.Step{Kind: "build", Build: &histeng.BuildOpts{Patterns: []string{"//..."}, LoadOutputs: "minimal"}})
				return h
			}
			w := histeng.GenWS(t, histeng.Profile{MaxTargets: 10, DirOutputs: true, Workers: []int{1, 2, 3}, Groups: true})
			for i := range w.Targets {
				w.Targets[i].SlowMs = rapid.SampledFrom([]int{0, 120, 250}).Draw(t, "slow")
				if rapid.IntRange(0, 2).Draw(t, "loosen") > 0 && len(w.Targets[i].Deps) > 1 {
					w.Targets[i].Deps = w.Targets[i].Deps[:1] // wider graphs
				}
			}
			// a grouping target with two dependencies: when one of them changes and the other one's blob is gone, the group's
			// own task has to re-run the latter under load_outputs=minimal - work that must stay inside the worker bound too
			groupDep := -1
			for gi := range w.Targets {
				g := &w.Targets[gi]
				if !g.NoCommand || gi < 2 {
					continue
				}
				if len(w.DirectDeps(g)) < 2 {
					for j := 0; j < gi; j++ {
						if l := w.Targets[j].Label(); !contains(w.DirectDeps(g), l) && !w.Targets[j].NoCommand {
							g.Deps = append(g.Deps, l)
							break
						}
					}
				}
				for j := 0; j < gi; j++ {
					if contains(w.DirectDeps(g), w.Targets[j].Label()) {
						groupDep = j
						break
					}
				}
			}
			h := histeng.History{WS: w}
			h.Steps = append(h.Steps, histeng.Step{Kind: "build", Build: &histeng.BuildOpts{Patterns: []string{"//..."}}})
			// a second, partially cached round
			h.Steps = append(h.Steps, histeng.Step{Kind: "bump-nonce", T: rapid.IntRange(0, 9).Draw(t, "t")},
				histeng.Step{Kind: "build", Build: &histeng.BuildOpts{Patterns: []string{"//..."}}})
			// a third round under load_outputs=minimal in which cached dependencies have to be brought back (fresh checkout)
			// or re-run because their blobs are gone: also that work has to stay within the worker bound
			switch rapid.IntRange(0, 3).Draw(t, "third") {
			case 3: // nothing is cached and nothing is loaded up front: each target still runs exactly once
				h.Steps = append(h.Steps, histeng.Step{Kind: "bump-nonce", T: rapid.IntRange(0, 9).Draw(t, "t3")},
					histeng.Step{Kind: "build", Build: &histeng.BuildOpts{Patterns: []string{"//..."}, LoadOutputs: "minimal", NoCache: true}})
			case 1:
				h.Steps = append(h.Steps, histeng.Step{Kind: "perturb-clean"}, histeng.Step{Kind: "bump-nonce", T: rapid.IntRange(0, 9).Draw(t, "t3")},
					histeng.Step{Kind: "build", Build: &histeng.BuildOpts{Patterns: []string{"//..."}, LoadOutputs: "minimal"}})
			case 2:
				t3 := rapid.IntRange(0, 9).Draw(t, "t3")
				if groupDep >= 0 && rapid.Bool().Draw(t, "below-group") {
					t3 = groupDep
				}
				h.Steps = append(h.Steps, histeng.Step{Kind: "fault-wipe-cas"}, histeng.Step{Kind: "bump-nonce", T: t3},
					histeng.Step{Kind: "build", Build: &histeng.BuildOpts{Patterns: []string{"//..."}, LoadOutputs: "minimal"}})
			}
			return h
		},
		Run: func(h histeng.History) (pbt.Result, error) {
			obs, err := histeng.RunHistory(h, os.Getenv("GROG_BIN"), histeng.Oracles{})
			res := pbt.Result{}
			for c := range obs.Classes {
				res.Classes = append(res.Classes, c)
			}
			sort.Strings(res.Classes)
			res.NonTrivial = obs.NonTrivial["workers-saturated"]
			if err != nil && strings.HasPrefix(err.Error(), "harness:") {
				return pbt.Result{Discard: true}, nil
			}
			return res, err
		}})
}

func contains(xs []string, x string) bool {
	for _, y := range xs {
		if y == x {
			return true
		}
	}
	return false
}
