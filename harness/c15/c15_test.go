// C15 — load_outputs=minimal is observationally equivalent for what gets built.
package c15

import (
	"os"
	"sort"
	"strings"
	"testing"

	"grog/verif/lib/histeng"
	"grog/verif/lib/pbt"

	"pgregory.net/rapid"
)

var profile = histeng.Profile{MaxTargets: 6, Edits: histeng.AllEdits, Taint: true, DirOutputs: true, BinOutputs: true, BinWeight: 2, Groups: true, MinSteps: 4, MaxSteps: 10, SubsetBuilds: true,
	NoCacheTags: true, NoCacheBuild: true, Faults: true, Perturbs: []string{"perturb-delete", "perturb-delete", "perturb-delete-parent", "perturb-overwrite", "perturb-clean", "perturb-clean"}}

func run(h histeng.History) (pbt.Result, error) {
	obs, err := histeng.RunHistory(h, os.Getenv("GROG_BIN"), histeng.Oracles{Lockstep: true})
	res := pbt.Result{}
	for c := range obs.Classes {
		res.Classes = append(res.Classes, c)
	}
	sort.Strings(res.Classes)
	res.NonTrivial = obs.NonTrivial["minimal-executed-with-cached-dependency"]
	if err != nil && strings.HasPrefix(err.Error(), "harness:") {
		return pbt.Result{Discard: true}, nil
	}
	return res, err
}

func TestHistories(t *testing.T) {
	if os.Getenv("GROG_BIN") == "" {
		t.Skip("GROG_BIN not set")
	}
	pbt.Main(t, pbt.Spec[histeng.History]{ID: "C15", Run: run,
		Gen: func(t *rapid.T) histeng.History { return histeng.GenHistory(t, profile) }})
}
