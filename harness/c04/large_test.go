package c04

import (
	"encoding/json"
	"fmt"
	"os"
	"path/filepath"
	"strings"
	"testing"
	"time"

	"grog/verif/lib/histeng"
	"grog/verif/lib/pbt"

	"pgregory.net/rapid"
)

// Part "large": builds with many more targets than any other check runs through the real binary (60-600). Buffers,
// message channels and worker hand-over only fill up at that size; a build that stalls there hangs for good. Commands are
// trivial, so a build takes a second or two; every build runs under a 120 s watchdog, cold and then warm (all cache
// hits), optionally with one failing target in keep-going or fail-fast mode.

type LargeCase struct {
	Shape    string `json:"shape"` // wide | chain | layers
	N        int    `json:"n"`
	Width    int    `json:"width"` // layers: nodes per layer
	Workers  int    `json:"workers"`
	FailAt   int    `json:"fail_at"` // -1: nobody fails
	FailFast bool   `json:"fail_fast"`
	Minimal  bool   `json:"minimal"`
}

type lt struct {
	Name    string   `json:"name"`
	Command string   `json:"command"`
	Deps    []string `json:"dependencies,omitempty"`
	Outputs []string `json:"outputs,omitempty"`
}

func (c LargeCase) targets() []lt {
	var ts []lt
	for i := 0; i < c.N; i++ {
		t := lt{Name: fmt.Sprintf("t%03d", i), Outputs: []string{fmt.Sprintf("out/t%03d.txt", i)}}
		cmd := fmt.Sprintf("mkdir -p out && echo %d > out/t%03d.txt", i, i)
		if i == c.FailAt {
			cmd = "echo failing >&2; exit 7"
		}
		t.Command = cmd
		switch c.Shape {
		case "chain":
			if i > 0 {
				t.Deps = []string{fmt.Sprintf(":t%03d", i-1)}
			}
		case "layers":
			w := max(1, c.Width)
			if layer := i / w; layer > 0 {
				// two dependencies in the previous layer
				a := (layer-1)*w + i%w
				b := (layer-1)*w + (i+1)%w
				t.Deps = []string{fmt.Sprintf(":t%03d", a)}
				if b != a {
					t.Deps = append(t.Deps, fmt.Sprintf(":t%03d", b))
				}
			}
		}
		ts = append(ts, t)
	}
	return ts
}

// downstream: indices that (transitively) depend on FailAt.
func (c LargeCase) downstream() map[int]bool {
	out := map[int]bool{}
	if c.FailAt < 0 {
		return out
	}
	ts := c.targets()
	idx := map[string]int{}
	for i, t := range ts {
		idx[":"+t.Name] = i
	}
	out[c.FailAt] = true
	for i, t := range ts { // dependencies always have smaller indices
		for _, d := range t.Deps {
			if out[idx[d]] {
				out[i] = true
			}
		}
	}
	return out
}

func runLarge(c LargeCase) (pbt.Result, error) {
	res := pbt.Result{Classes: []string{"shape:" + c.Shape}}
	base, err := os.MkdirTemp("", "c04large-")
	if err != nil {
		return pbt.Result{Discard: true}, nil
	}
	defer os.RemoveAll(base)
	sb, err := histeng.NewSandbox(base, os.Getenv("GROG_BIN"))
	if err != nil {
		return pbt.Result{Discard: true}, nil
	}
	b, _ := json.Marshal(map[string]any{"targets": c.targets()})
	if err := os.MkdirAll(filepath.Join(sb.WS, "big"), 0o755); err != nil {
		return pbt.Result{Discard: true}, nil
	}
	_ = os.WriteFile(filepath.Join(sb.WS, "big", "BUILD.json"), b, 0o644)
	_ = os.WriteFile(filepath.Join(sb.WS, "grog.toml"), []byte(fmt.Sprintf("num_workers = %d\nlog_level = \"info\"\n", c.Workers)), 0o644)
	down := c.downstream()
	args := []string{"build"}
	if c.FailFast {
		args = append(args, "--fail-fast")
	}
	if c.Minimal {
		args = append(args, "--load-outputs=minimal")
	}
	args = append(args, "//...")
	for round, name := range []string{"cold", "warm"} {
		r := sb.Grog("", 120*time.Second, args...)
		tail := func() string {
			out := r.Out
			if len(out) > 1200 {
				out = "…" + out[len(out)-1200:]
			}
			return fmt.Sprintf("\n%s build of %d targets (%s, width %d, %d workers, fail_at=%d, fail_fast=%v): exit=%d wall=%v\n%s", name, c.N, c.Shape, c.Width, c.Workers, c.FailAt, c.FailFast, r.Exit, r.Wall.Round(time.Millisecond), out)
		}
		if r.TimedOut {
			return res, pbt.Fail("large-build-did-not-terminate", "grog build did not exit within 120 s%s", tail())
		}
		if r.Exit < 0 || r.Exit > 125 || strings.Contains(r.Out, "panic:") || strings.Contains(r.Out, "fatal error:") {
			return res, pbt.Fail("large-build-crashed", "grog died abnormally%s", tail())
		}
		if (c.FailAt >= 0) != (r.Exit != 0) {
			return res, pbt.Fail("large-build-wrong-exit", "exit status does not reflect whether a target failed%s", tail())
		}
		// every target that does not depend on the failing one is resolved: its output exists (keep-going mode)
		if !c.FailFast || c.FailAt < 0 {
			for i := 0; i < c.N; i++ {
				_, err := os.Stat(filepath.Join(sb.WS, "big", fmt.Sprintf("out/t%03d.txt", i)))
				if down[i] && i != c.FailAt && err == nil && round == 0 {
					return res, pbt.Fail("large-dependant-of-failure-ran", "t%03d depends on the failing target but its output exists%s", i, tail())
				}
				if !down[i] && err != nil && !c.Minimal {
					return res, pbt.Fail("large-target-unresolved", "t%03d neither failed nor depends on a failure, yet its output is missing%s", i, tail())
				}
			}
		}
		if round == 0 && !c.Minimal {
			// the warm round has to restore, not to find: remove the products
			_ = os.RemoveAll(filepath.Join(sb.WS, "big", "out"))
		}
	}
	res.NonTrivial = c.N >= 100
	return res, nil
}

func TestLarge(t *testing.T) {
	if os.Getenv("GROG_BIN") == "" {
		t.Skip("GROG_BIN not set")
	}
	pbt.Main(t, pbt.Spec[LargeCase]{ID: "C04", Run: runLarge,
		Gen: func(t *rapid.T) LargeCase {
			c := LargeCase{Shape: rapid.SampledFrom([]string{"wide", "wide", "chain", "layers", "layers"}).Draw(t, "shape"),
				N: 600 - rapid.IntRange(0, 540).Draw(t, "n-below-max"), Workers: rapid.SampledFrom([]int{1, 2, 4, 8, 16}).Draw(t, "workers"), FailAt: -1,
				Minimal: rapid.IntRange(0, 3).Draw(t, "minimal") == 0}
			if c.Shape == "chain" {
				c.N = min(c.N, 200)
			}
			c.Width = rapid.SampledFrom([]int{2, 5, 20, 50}).Draw(t, "width")
			if rapid.IntRange(0, 2).Draw(t, "fails") == 0 {
				c.FailAt = rapid.IntRange(0, c.N-1).Draw(t, "fail_at")
				c.FailFast = rapid.Bool().Draw(t, "fail_fast")
			}
			return c
		}})
}
