package c04

// Part "restore-faults" (fault enumeration): cache outputs through the real
// registry, then for EVERY cache object the restore will read (tree blobs and
// each file blob at each depth) x {deleted, truncated to half, emptied} — one
// fault, and pairs of faults — call Registry.LoadOutputs under a watchdog. It
// must return (nil or an error, both fine: an error makes grog re-execute the
// target); it must never hang or crash.

import (
	"context"
	"fmt"
	"os"
	"path/filepath"
	"sort"
	"testing"
	"time"

	"grog/internal/caching"
	"grog/internal/caching/backends"
	"grog/internal/config"
	"grog/internal/label"
	"grog/internal/model"
	"grog/internal/output"
	"grog/verif/lib/pbt"
	"grog/verif/lib/treegen"

	"pgregory.net/rapid"
)

type RestoreCase struct {
	Algo     string           `json:"algo"`
	Trees    [][]treegen.Node `json:"dir_outputs"`
	Files    []string         `json:"file_outputs"` // contents
	FaultPct int              `json:"-"`
}

var tmpRoot string

func runRestore(c RestoreCase) (pbt.Result, error) {
	res := pbt.Result{}
	base := filepath.Join(tmpRoot, "restore")
	_ = os.RemoveAll(base)
	ws := filepath.Join(base, "ws")
	root := filepath.Join(base, "root")
	config.Global = config.WorkspaceConfig{WorkspaceRoot: ws, Root: root, HashAlgorithm: c.Algo, OS: "linux", Arch: "amd64", NumWorkers: 4, DisableNonDeterministicLogging: true}
	target := model.Target{Label: label.TargetLabel{Package: "p", Name: "t"}, ChangeHash: "c04"}
	pkgDir := filepath.Join(ws, "p")
	for i, tr := range c.Trees {
		if err := treegen.WriteTree(filepath.Join(pkgDir, fmt.Sprintf("d%d", i)), tr); err != nil {
			return res, err
		}
		target.Outputs = append(target.Outputs, model.NewOutput("dir", fmt.Sprintf("d%d", i)))
	}
	for i, content := range c.Files {
		if err := os.MkdirAll(pkgDir, 0o755); err != nil {
			return res, err
		}
		if err := os.WriteFile(filepath.Join(pkgDir, fmt.Sprintf("f%d", i)), []byte(content), 0o644); err != nil {
			return res, err
		}
		target.Outputs = append(target.Outputs, model.NewOutput("file", fmt.Sprintf("f%d", i)))
	}
	ctx := context.Background()
	newRegistry := func() (*output.Registry, error) {
		backend, err := backends.NewFileSystemCache(ctx)
		if err != nil {
			return nil, err
		}
		return output.NewRegistry(ctx, caching.NewCas(backend)), nil
	}
	reg, err := newRegistry()
	if err != nil {
		return res, err
	}
	result, err := reg.WriteOutputs(ctx, &target, nil)
	if err != nil {
		return res, pbt.Fail("write-outputs-error", "%v", err)
	}
	casDir := filepath.Join(config.Global.GetWorkspaceCacheDirectory(), "cas")
	entries, _ := os.ReadDir(casDir)
	var blobs []string
	for _, e := range entries {
		blobs = append(blobs, e.Name())
	}
	sort.Strings(blobs)
	saved := map[string][]byte{}
	for _, b := range blobs {
		saved[b], _ = os.ReadFile(filepath.Join(casDir, b))
	}
	restoreBlobs := func() {
		for b, data := range saved {
			_ = os.WriteFile(filepath.Join(casDir, b), data, 0o644)
		}
	}
	type fault struct {
		blob, kind string
	}
	apply := func(f fault) {
		p := filepath.Join(casDir, f.blob)
		switch f.kind {
		case "deleted":
			_ = os.Remove(p)
		case "truncated":
			_ = os.Truncate(p, int64(len(saved[f.blob])/2))
		default:
			_ = os.Truncate(p, 0)
		}
	}
	attempt := func(fs []fault) error {
		restoreBlobs()
		_ = os.RemoveAll(pkgDir) // the workspace copy is gone: everything must come from the cache
		for _, f := range fs {
			apply(f)
		}
		r, err := newRegistry() // fresh existence cache, like a new grog process
		if err != nil {
			return err
		}
		fresh := model.Target{Label: target.Label, Outputs: target.Outputs, ChangeHash: target.ChangeHash}
		done := make(chan error, 1)
		go func() { done <- r.LoadOutputs(ctx, &fresh, result, nil) }()
		select {
		case <-done:
			return nil
		case <-time.After(30 * time.Second):
			return pbt.Fail("restore-hang", "LoadOutputs did not return within 30 s with cache faults %v (%d blobs in the cache)", fs, len(blobs))
		}
	}
	kinds := []string{"deleted", "truncated", "emptied"}
	n := 0
	for _, b := range blobs {
		for _, k := range kinds {
			if err := attempt([]fault{{b, k}}); err != nil {
				return res, err
			}
			n++
		}
	}
	// pairs of deletions (bounded)
	pairs := 0
	for i := 0; i < len(blobs) && pairs < 40; i++ {
		for j := i + 1; j < len(blobs) && pairs < 40; j++ {
			if err := attempt([]fault{{blobs[i], "deleted"}, {blobs[j], "deleted"}}); err != nil {
				return res, err
			}
			pairs++
			n++
		}
	}
	// everything gone
	var all []fault
	for _, b := range blobs {
		all = append(all, fault{b, "deleted"})
	}
	if err := attempt(all); err != nil {
		return res, err
	}
	pbt.Count("fault-points", n+1)
	res.NonTrivial = len(blobs) >= 2
	res.Classes = append(res.Classes, fmt.Sprintf("blobs>=4:%v", len(blobs) >= 4))
	return res, nil
}

func TestRestoreFaults(t *testing.T) {
	pbt.Main(t, pbt.Spec[RestoreCase]{ID: "C04", WAL: true,
		Gen: func(t *rapid.T) RestoreCase {
			c := RestoreCase{Algo: rapid.SampledFrom([]string{"xxh3", "sha256"}).Draw(t, "algo")}
			shape := rapid.IntRange(0, 3).Draw(t, "shape")
			switch shape {
			case 0: // flat directory: many files, no sub-directories
				var flat []treegen.Node
				for i := rapid.IntRange(1, 6).Draw(t, "nflat"); i > 0; i-- {
					flat = append(flat, treegen.Node{Name: fmt.Sprintf("f%d", i), Kind: "file", Content: fmt.Sprintf("content-%d", i%3)})
				}
				c.Trees = append(c.Trees, flat)
			case 1:
				c.Trees = append(c.Trees, treegen.GenTree(t, 3))
			case 2:
				c.Trees = append(c.Trees, treegen.GenTree(t, 2), treegen.GenTree(t, 1))
				c.Files = []string{"file-output"}
			default:
				c.Files = []string{"a", "bb"}
			}
			return c
		},
		Run: runRestore})
}

func TestMain(m *testing.M) {
	dir, err := os.MkdirTemp("", "c04-")
	if err != nil {
		panic(err)
	}
	tmpRoot = dir
	code := m.Run()
	_ = os.RemoveAll(dir)
	os.Exit(code)
}
