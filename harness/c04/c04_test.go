// C04 — every build terminates with every selected target resolved (walker level).
package c04

import (
	"fmt"
	"testing"

	"grog/verif/lib/pbt"
	"grog/verif/lib/walkeng"

	"pgregory.net/rapid"
)

var theT *testing.T

func runWith(virtual bool) func(c walkeng.Case) (pbt.Result, error) {
	return func(c walkeng.Case) (pbt.Result, error) {
		nfail, withDeps := c.SelectedFailures()
		res := pbt.Result{Classes: []string{"shape:" + c.Shape, fmt.Sprintf("failfast:%v", c.FailFast), fmt.Sprintf("cancel:%v", c.CancelAtUs >= 0)}}
		o := walkeng.Run(theT, c, virtual)
		if v := walkeng.CheckResolved(c, o); v != nil {
			return res, pbt.Fail(v.Sig, "%s", v.Msg)
		}
		if v := walkeng.CheckOrder(c, o); v != nil {
			return res, pbt.Fail(v.Sig, "%s", v.Msg)
		}
		zero := true
		for _, l := range c.LatencyUs {
			if l != 0 {
				zero = false
			}
		}
		res.NonTrivial = (nfail > 0 && withDeps) || c.CancelAtUs >= 0 || (zero && c.N >= 1000)
		return res, nil
	}
}

func TestBubble(t *testing.T) {
	theT = t
	pbt.Main(t, pbt.Spec[walkeng.Case]{ID: "C04", WAL: true,
		Gen: func(t *rapid.T) walkeng.Case {
			big := rapid.IntRange(0, 19).Draw(t, "big") == 0
			maxN := 40
			if big {
				maxN = 4000
			}
			return walkeng.Gen(t, walkeng.GenOpts{MaxN: maxN, Failures: true, Cancel: true, ZeroBias: true})
		},
		Run: runWith(true)})
}

// TestRace: real scheduler under the race detector. Keep-going failures only: with
// fail-fast or an external cancel grog closes the pool's job channel while node
// routines may still be enqueueing and recovers from the resulting panic on
// purpose — the race detector reports that close/send pair although it is handled.
func TestRace(t *testing.T) {
	theT = t
	pbt.Main(t, pbt.Spec[walkeng.Case]{ID: "C04", WAL: true,
		Gen: func(t *rapid.T) walkeng.Case {
			big := rapid.IntRange(0, 9).Draw(t, "big") == 0
			maxN := 60
			if big {
				maxN = 3000
			}
			c := walkeng.Gen(t, walkeng.GenOpts{MaxN: maxN, Failures: true, ZeroBias: true, RealTime: true})
			c.FailFast = false
			return c
		},
		Run: runWith(false)})
}

// TestRaceCancel: race detector, walker alone (tasks behind a plain semaphore), with fail-fast and external cancel;
// the completion map that Walk returns is iterated immediately, as RunBuild does.
func TestRaceCancel(t *testing.T) {
	theT = t
	pbt.Main(t, pbt.Spec[walkeng.Case]{ID: "C04", WAL: true,
		Gen: func(t *rapid.T) walkeng.Case {
			c := walkeng.Gen(t, walkeng.GenOpts{MaxN: 80, Failures: true, Cancel: true, ZeroBias: true, RealTime: true})
			c.NoPool = true
			return c
		},
		Run: runWith(false)})
}

// TestStress: real scheduler without the race detector, including fail-fast and external cancel.
func TestStress(t *testing.T) {
	theT = t
	pbt.Main(t, pbt.Spec[walkeng.Case]{ID: "C04", WAL: true,
		Gen: func(t *rapid.T) walkeng.Case {
			big := rapid.IntRange(0, 9).Draw(t, "big") == 0
			maxN := 60
			if big {
				maxN = 3000
			}
			return walkeng.Gen(t, walkeng.GenOpts{MaxN: maxN, Failures: true, Cancel: true, ZeroBias: true, RealTime: true})
		},
		Run: runWith(false)})
}
