package c04

import (
	"os"
	"sort"
	"strings"
	"testing"

	"grog/verif/lib/histeng"
	"grog/verif/lib/pbt"

	"pgregory.net/rapid"
)

// The walker parts above drive the Walker with synthetic callbacks. This part closes the gap between the callbacks and
// the real executor: histories through the real binary in which targets exceed their declared timeout, fail or kill
// themselves, in keep-going and fail-fast builds, at any position of the graph. The history engine reports a build that
// does not exit on its own (C04:build-did-not-terminate) and a build that exits 0 while a selected target is unresolved.
var timeoutProfile = histeng.Profile{MaxTargets: 6, Edits: []string{"bump-nonce"},
	ExtSteps: []string{"set-slow", "set-slow", "set-slow", "set-fail", "set-softfail", "set-selfkill", "clear-switches"},
	Timeouts: true, TimeoutPct: 70, FailFast: true, MinSteps: 2, MaxSteps: 6, SubsetBuilds: true}

func runTimeouts(h histeng.History) (pbt.Result, error) {
	obs, err := histeng.RunHistory(h, os.Getenv("GROG_BIN"), histeng.Oracles{})
	res := pbt.Result{}
	for c := range obs.Classes {
		res.Classes = append(res.Classes, c)
	}
	sort.Strings(res.Classes)
	res.NonTrivial = obs.Classes["ext:set-slow"] || obs.Classes["ext:set-selfkill"]
	if err != nil && strings.HasPrefix(err.Error(), "harness:") {
		return pbt.Result{Discard: true}, nil
	}
	return res, err
}

func TestTimeouts(t *testing.T) {
	if os.Getenv("GROG_BIN") == "" {
		t.Skip("GROG_BIN not set")
	}
	pbt.Main(t, pbt.Spec[histeng.History]{ID: "C04", Run: runTimeouts,
		Gen: func(t *rapid.T) histeng.History { return histeng.GenHistory(t, timeoutProfile) }})
}
