// C06 — cached outputs are restored exactly, from any workspace state.
//
// Round trip through the real output registry: materialise generated file and
// directory outputs, Registry.WriteOutputs, put the destination paths into a
// generated prior state, Registry.LoadOutputs, compare recursive listings.
package c06

import (
	"context"
	"crypto/sha256"
	"encoding/hex"
	"errors"
	"fmt"
	"os"
	"path/filepath"
	"regexp"
	"sort"
	"strings"
	"testing"

	"grog/internal/caching"
	"grog/internal/caching/backends"
	"grog/internal/config"
	"grog/internal/label"
	"grog/internal/model"
	"grog/internal/output"
	"grog/verif/lib/pbt"

	"pgregory.net/rapid"
)

type Node struct {
	Name     string `json:"name"`
	Kind     string `json:"kind"` // file | dir | symlink
	Content  string `json:"content,omitempty"`
	Exec     bool   `json:"exec,omitempty"`
	Target   string `json:"target,omitempty"`
	Children []Node `json:"children,omitempty"`
}

type Out struct {
	Type    string `json:"type"` // file | dir
	Path    string `json:"path"`
	Bin     bool   `json:"bin_output,omitempty"`
	Content string `json:"content,omitempty"`
	Exec    bool   `json:"exec,omitempty"`
	Tree    []Node `json:"tree,omitempty"`
	Prior   string `json:"prior"` // prior state of the destination before the restore
	PriorAt int    `json:"prior_at"`
}

type Case struct {
	Pkg     string `json:"pkg"`
	Algo    string `json:"algo"`
	Outputs []Out  `json:"outputs"`
}

// ----------------------------------------------------------------- listing

func listing(root string) (map[string]string, error) {
	out := map[string]string{}
	info, err := os.Lstat(root)
	if err != nil {
		return nil, err
	}
	var walk func(p, rel string, info os.FileInfo) error
	walk = func(p, rel string, info os.FileInfo) error {
		switch {
		case info.Mode()&os.ModeSymlink != 0:
			tgt, err := os.Readlink(p)
			if err != nil {
				return err
			}
			out[rel] = "symlink -> " + tgt
		case info.IsDir():
			out[rel] = "dir"
			entries, err := os.ReadDir(p)
			if err != nil {
				return err
			}
			for _, e := range entries {
				ei, err := e.Info()
				if err != nil {
					return err
				}
				if err := walk(filepath.Join(p, e.Name()), rel+"/"+e.Name(), ei); err != nil {
					return err
				}
			}
		default:
			data, err := os.ReadFile(p)
			if err != nil {
				return err
			}
			sum := sha256.Sum256(data)
			out[rel] = fmt.Sprintf("file exec=%v size=%d sha=%s", info.Mode()&0o111 != 0, len(data), hex.EncodeToString(sum[:8]))
		}
		return nil
	}
	return out, walk(root, ".", info)
}

func diffListings(want, got map[string]string) string {
	var d []string
	for k, v := range want {
		if g, ok := got[k]; !ok {
			d = append(d, fmt.Sprintf("missing %s (%s)", k, v))
		} else if g != v {
			d = append(d, fmt.Sprintf("%s: want %s got %s", k, v, g))
		}
	}
	for k, v := range got {
		if _, ok := want[k]; !ok {
			d = append(d, fmt.Sprintf("extra %s (%s)", k, v))
		}
	}
	sort.Strings(d)
	return strings.Join(d, "; ")
}

// ------------------------------------------------------------- materialise

func writeTree(dir string, nodes []Node) error {
	if err := os.MkdirAll(dir, 0o755); err != nil {
		return err
	}
	for _, n := range nodes {
		p := filepath.Join(dir, n.Name)
		switch n.Kind {
		case "dir":
			if err := writeTree(p, n.Children); err != nil {
				return err
			}
		case "symlink":
			if err := os.Symlink(n.Target, p); err != nil {
				return err
			}
		default:
			mode := os.FileMode(0o644)
			if n.Exec {
				mode = 0o755
			}
			if err := os.WriteFile(p, []byte(n.Content), mode); err != nil {
				return err
			}
			if err := os.Chmod(p, mode); err != nil {
				return err
			}
		}
	}
	return nil
}

// regular files below root (not through symlinks), sorted
func filesBelow(root string) []string {
	var fs []string
	_ = filepath.Walk(root, func(p string, info os.FileInfo, err error) error {
		if err == nil && info.Mode().IsRegular() {
			fs = append(fs, p)
		}
		return nil
	})
	sort.Strings(fs)
	return fs
}

func dirsBelow(root string) []string {
	var ds []string
	_ = filepath.Walk(root, func(p string, info os.FileInfo, err error) error {
		if err == nil && info.IsDir() {
			ds = append(ds, p)
		}
		return nil
	})
	sort.Strings(ds)
	return ds
}

func pick(xs []string, i int) string {
	if len(xs) == 0 {
		return ""
	}
	if i < 0 {
		i = -i
	}
	return xs[i%len(xs)]
}

const victimContent = "not part of the workspace - must survive"

// outsideDir: a directory next to the workspace root (never inside it) that belongs to this case.
func outsideDir(pkgDir string) string {
	d := pkgDir
	for filepath.Base(d) != "ws" && d != "/" {
		d = filepath.Dir(d)
	}
	return filepath.Join(filepath.Dir(d), "outside")
}

// victimsIntact: nothing outside the workspace was written through a link.
func victimsIntact(pkgDir string) string {
	outside := outsideDir(pkgDir)
	if _, err := os.Stat(outside); err != nil {
		return ""
	}
	for _, f := range []string{"victim.txt", "victim-dir/keep"} {
		b, err := os.ReadFile(filepath.Join(outside, f))
		if err != nil || string(b) != victimContent {
			return fmt.Sprintf("%s outside the workspace was modified or removed (now %q, err %v)", f, b, err)
		}
	}
	entries, _ := os.ReadDir(filepath.Join(outside, "victim-dir"))
	if len(entries) != 1 {
		return fmt.Sprintf("the directory outside the workspace now has %d entries", len(entries))
	}
	return ""
}

// applyPrior puts the destination into its prior state. Returns false when the
// state does not apply to this output (then nothing was changed).
func applyPrior(pkgDir string, o Out) (bool, error) {
	abs := filepath.Join(pkgDir, o.Path)
	switch o.Prior {
	case "identical":
		return true, nil
	case "absent":
		return true, os.RemoveAll(abs)
	case "parent-absent":
		parent := filepath.Dir(abs)
		if filepath.Clean(parent) == filepath.Clean(pkgDir) {
			return false, nil
		}
		// remove the top-most directory below the package that leads to the output
		rel, _ := filepath.Rel(pkgDir, parent)
		top := strings.Split(rel, string(filepath.Separator))[0]
		return true, os.RemoveAll(filepath.Join(pkgDir, top))
	case "modify", "truncate", "longer", "exec-flip":
		var f string
		if o.Type == "file" {
			f = abs
		} else {
			f = pick(filesBelow(abs), o.PriorAt)
		}
		if f == "" {
			return false, nil
		}
		data, err := os.ReadFile(f)
		if err != nil {
			return false, err
		}
		info, _ := os.Stat(f)
		switch o.Prior {
		case "modify":
			if len(data) == 0 {
				return true, os.WriteFile(f, []byte("!"), info.Mode().Perm())
			}
			data[o.PriorAt%len(data)] ^= 0x01
			return true, os.WriteFile(f, data, info.Mode().Perm())
		case "truncate":
			if len(data) == 0 {
				return false, nil
			}
			return true, os.Truncate(f, int64(len(data)/2))
		case "longer":
			return true, os.WriteFile(f, append(data, []byte("TRAILING-GARBAGE")...), info.Mode().Perm())
		default:
			return true, os.Chmod(f, info.Mode().Perm()^0o111)
		}
	case "stale-file", "stale-dir", "stale-symlink", "remove-child", "stale-nested":
		if o.Type != "dir" {
			return false, nil
		}
		d := pick(dirsBelow(abs), o.PriorAt)
		switch o.Prior {
		case "stale-file":
			return true, os.WriteFile(filepath.Join(d, "zz-stale.txt"), []byte("stale"), 0o644)
		case "stale-dir":
			return true, os.MkdirAll(filepath.Join(d, "zz-stale-dir"), 0o755)
		case "stale-nested":
			if err := os.MkdirAll(filepath.Join(d, "zz-stale-dir", "deeper"), 0o755); err != nil {
				return false, err
			}
			return true, os.WriteFile(filepath.Join(d, "zz-stale-dir", "deeper", "f"), []byte("x"), 0o755)
		case "stale-symlink":
			return true, os.Symlink("nowhere", filepath.Join(d, "zz-stale-link"))
		default:
			entries, _ := os.ReadDir(d)
			if len(entries) == 0 {
				return false, nil
			}
			return true, os.RemoveAll(filepath.Join(d, entries[o.PriorAt%len(entries)].Name()))
		}
	case "dir-where-file":
		// the mirror image: a (non-empty) directory sits where the file output belongs
		if o.Type != "file" {
			return false, nil
		}
		if err := os.RemoveAll(abs); err != nil {
			return false, err
		}
		if err := os.MkdirAll(filepath.Join(abs, "sub"), 0o755); err != nil {
			return false, err
		}
		return true, os.WriteFile(filepath.Join(abs, "sub", "junk"), []byte("junk"), 0o644)
	case "symlink-where-file", "symlink-where-dir", "dangling-symlink":
		// somebody replaced the output by a link to something OUTSIDE the workspace; restoring the output must neither
		// leave the link in place nor write through it
		if (o.Prior == "symlink-where-file") != (o.Type == "file") && o.Prior != "dangling-symlink" {
			return false, nil
		}
		outside := outsideDir(pkgDir)
		if err := os.MkdirAll(filepath.Join(outside, "victim-dir"), 0o755); err != nil {
			return false, err
		}
		_ = os.WriteFile(filepath.Join(outside, "victim.txt"), []byte(victimContent), 0o644)
		_ = os.WriteFile(filepath.Join(outside, "victim-dir", "keep"), []byte(victimContent), 0o644)
		if err := os.RemoveAll(abs); err != nil {
			return false, err
		}
		switch o.Prior {
		case "symlink-where-file":
			return true, os.Symlink(filepath.Join(outside, "victim.txt"), abs)
		case "symlink-where-dir":
			return true, os.Symlink(filepath.Join(outside, "victim-dir"), abs)
		}
		return true, os.Symlink(filepath.Join(outside, "does-not-exist"), abs)
	case "file-where-dir":
		if o.Type != "dir" {
			return false, nil
		}
		if err := os.RemoveAll(abs); err != nil {
			return false, err
		}
		return true, os.WriteFile(abs, []byte("i am a file"), 0o644)
	}
	return false, fmt.Errorf("unknown prior state %q", o.Prior)
}

// ------------------------------------------------------------------- run

var tmpRoot string
var registry *output.Registry
var casesSinceWipe int

var caseNo int

func setup(algo string) (string, error) {
	// a directory of its own per case: a LoadOutputs that fails returns while its other restore tasks are still running,
	// and those must not write into the next case's workspace
	_ = os.RemoveAll(filepath.Join(tmpRoot, fmt.Sprintf("case-%d", caseNo)))
	caseNo++
	ws := filepath.Join(tmpRoot, fmt.Sprintf("case-%d", caseNo), "ws")
	config.Global = config.WorkspaceConfig{WorkspaceRoot: ws, Root: filepath.Join(tmpRoot, "root"), HashAlgorithm: algo, OS: "linux", Arch: "amd64", NumWorkers: 4}
	if registry == nil || casesSinceWipe > 300 {
		_ = os.RemoveAll(filepath.Join(tmpRoot, "root"))
		backend, err := backends.NewFileSystemCache(context.Background())
		if err != nil {
			return "", err
		}
		registry = output.NewRegistry(context.Background(), caching.NewCas(backend))
		casesSinceWipe = 0
	}
	casesSinceWipe++
	return ws, os.MkdirAll(ws, 0o755)
}

func run(c Case) (pbt.Result, error) {
	res := pbt.Result{}
	ws, err := setup(c.Algo)
	if err != nil {
		return res, fmt.Errorf("setup: %w", err)
	}
	pkgDir := filepath.Join(ws, c.Pkg)
	if err := os.MkdirAll(pkgDir, 0o755); err != nil {
		return res, err
	}
	target := model.Target{Label: label.TargetLabel{Package: c.Pkg, Name: "t"}, ChangeHash: "c06"}
	special := false
	for _, o := range c.Outputs {
		abs := filepath.Join(pkgDir, o.Path)
		if o.Type == "dir" {
			if err := writeTree(abs, o.Tree); err != nil {
				return res, fmt.Errorf("materialise: %w", err)
			}
			target.Outputs = append(target.Outputs, model.NewOutput("dir", o.Path))
			special = special || treeHasSpecial(o.Tree)
		} else {
			if err := writeTree(filepath.Dir(abs), []Node{{Name: filepath.Base(abs), Kind: "file", Content: o.Content, Exec: o.Exec}}); err != nil {
				return res, fmt.Errorf("materialise: %w", err)
			}
			if o.Bin {
				target.BinOutput = model.NewOutput("file", o.Path)
			} else {
				target.Outputs = append(target.Outputs, model.NewOutput("file", o.Path))
			}
			special = special || o.Exec
		}
	}
	want := map[string]map[string]string{}
	for _, o := range c.Outputs {
		l, err := listing(filepath.Join(pkgDir, o.Path))
		if err != nil {
			return res, fmt.Errorf("listing before: %w", err)
		}
		want[o.Path] = l
	}
	ctx := context.Background()
	result, err := registry.WriteOutputs(ctx, &target, nil)
	if err != nil {
		return res, pbt.Fail("write-outputs-error", "WriteOutputs: %v", err)
	}
	nonIdentical := false
	for _, o := range c.Outputs {
		applied, err := applyPrior(pkgDir, o)
		if err != nil {
			return res, fmt.Errorf("prior state %s: %w", o.Prior, err)
		}
		cls := "prior:" + o.Type + ":" + o.Prior
		if !applied {
			cls += ":n/a"
		} else if o.Prior != "identical" {
			nonIdentical = true
		}
		res.Classes = append(res.Classes, cls)
	}
	fresh := model.Target{Label: target.Label, Outputs: target.Outputs, BinOutput: target.BinOutput, ChangeHash: target.ChangeHash}
	if err := registry.LoadOutputs(ctx, &fresh, result, nil); err != nil {
		return res, pbt.Fail("load-error:"+errClass(err), "LoadOutputs failed although every blob is in the cache: %v", err)
	}
	for _, o := range c.Outputs {
		got, err := listing(filepath.Join(pkgDir, o.Path))
		if err != nil {
			return res, pbt.Fail("restored-output-unreadable:"+o.Type+":"+o.Prior, "output %s after restore: %v", o.Path, err)
		}
		if d := diffListings(want[o.Path], got); d != "" {
			return res, pbt.Fail("restore-differs:"+o.Type+":"+classify(d), "output %s (%s, prior state %s) differs after restore: %s", o.Path, o.Type, o.Prior, d)
		}
	}
	if v := victimsIntact(pkgDir); v != "" {
		return res, pbt.Fail("restore-wrote-outside-workspace", "restore followed a link that sat at an output path: %s", v)
	}
	res.NonTrivial = special && nonIdentical
	return res, nil
}

func errClass(err error) string {
	switch {
	case errors.Is(err, os.ErrNotExist):
		return "enoent"
	case errors.Is(err, os.ErrExist):
		return "eexist"
	case errors.Is(err, os.ErrPermission):
		return "eperm"
	}
	msg := err.Error()
	if i := strings.LastIndex(msg, ": "); i >= 0 {
		msg = msg[i+2:]
	}
	return msg
}

func priorSummary(c Case) string {
	var ps []string
	for _, o := range c.Outputs {
		if o.Prior != "identical" {
			ps = append(ps, o.Type+":"+o.Prior)
		}
	}
	sort.Strings(ps)
	if len(ps) > 1 {
		ps = ps[:1]
	}
	return strings.Join(ps, "+")
}

func classify(diff string) string {
	switch {
	case regexp.MustCompile(`want file exec=(true|false) size=(\d+) sha=(\w+) got file exec=(true|false) size=(\d+) sha=(\w+)`).MatchString(diff):
		m := regexp.MustCompile(`want file exec=(true|false) size=(\d+) sha=(\w+) got file exec=(true|false) size=(\d+) sha=(\w+)`).FindStringSubmatch(diff)
		if m[1] != m[4] && m[3] == m[6] {
			return "exec-bit"
		}
		return "content"
	case strings.Contains(diff, "extra "):
		return "extra-entry"
	case strings.Contains(diff, "missing "):
		return "missing-entry"
	default:
		return "entry-kind"
	}
}

func treeHasSpecial(ns []Node) bool {
	for _, n := range ns {
		if n.Kind == "symlink" || (n.Kind == "file" && n.Exec) || (n.Kind == "dir" && (len(n.Children) == 0 || treeHasSpecial(n.Children))) {
			return true
		}
	}
	return false
}

// -------------------------------------------------------------- generator

var entryNames = []string{"a", "b", "c", "a b", "-x", "ünï", "tmp-1", "sub", "x.txt", "Makefile", ".hidden", strings.Repeat("n", 200), "z"}
var fileContents = []string{"", "x", "same", "same", "samf", "line1\nline2\n", strings.Repeat("blob", 2000), "\x00\x01\xff"}
var linkTargets = []string{"a", "nope", "sub", "..", "../escape", "/etc/hostname", "./b"}

func genTree(t *rapid.T, depth int) []Node {
	n := rapid.IntRange(0, 4).Draw(t, "fanout")
	names := rapid.SliceOfNDistinct(rapid.SampledFrom(entryNames), n, n, rapid.ID[string]).Draw(t, "names")
	var nodes []Node
	for _, name := range names {
		k := rapid.IntRange(0, 9).Draw(t, "kind")
		switch {
		case k <= 4:
			nodes = append(nodes, Node{Name: name, Kind: "file", Content: rapid.SampledFrom(fileContents).Draw(t, "content"), Exec: rapid.IntRange(0, 2).Draw(t, "exec") == 0})
		case k <= 7 && depth > 0:
			nodes = append(nodes, Node{Name: name, Kind: "dir", Children: genTree(t, depth-1)})
		case k <= 7:
			nodes = append(nodes, Node{Name: name, Kind: "dir"})
		default:
			nodes = append(nodes, Node{Name: name, Kind: "symlink", Target: rapid.SampledFrom(linkTargets).Draw(t, "link")})
		}
	}
	return nodes
}

var filePriors = []string{"identical", "absent", "parent-absent", "modify", "truncate", "longer", "exec-flip", "dir-where-file", "symlink-where-file", "dangling-symlink"}
var dirPriors = []string{"identical", "absent", "parent-absent", "modify", "truncate", "longer", "exec-flip", "stale-file", "stale-dir", "stale-nested", "stale-symlink", "remove-child", "file-where-dir", "symlink-where-dir", "dangling-symlink"}

func gen(t *rapid.T) Case {
	c := Case{Pkg: rapid.SampledFrom([]string{"", "p", "p/q"}).Draw(t, "pkg"), Algo: rapid.SampledFrom([]string{"xxh3", "sha256"}).Draw(t, "algo")}
	// each output lives under its own top-level name so that no two outputs overlap
	fileSlots := []string{"o", "out1/o", "out2/deep/er/o", "./p", "out3/../q"}
	dirSlots := []string{"d", "dist1/d", "dist2/x/y/d", "./e"}
	nf := rapid.IntRange(0, 2).Draw(t, "nfiles")
	nd := rapid.IntRange(0, 2).Draw(t, "ndirs")
	if nf+nd == 0 {
		nd = 1
	}
	for _, p := range rapid.SliceOfNDistinct(rapid.SampledFrom(fileSlots), nf, nf, rapid.ID[string]).Draw(t, "fslots") {
		c.Outputs = append(c.Outputs, Out{Type: "file", Path: p, Content: rapid.SampledFrom(fileContents).Draw(t, "content"), Exec: rapid.Bool().Draw(t, "exec"),
			Prior: rapid.SampledFrom(filePriors).Draw(t, "prior"), PriorAt: rapid.IntRange(0, 7).Draw(t, "at")})
	}
	for _, p := range rapid.SliceOfNDistinct(rapid.SampledFrom(dirSlots), nd, nd, rapid.ID[string]).Draw(t, "dslots") {
		c.Outputs = append(c.Outputs, Out{Type: "dir", Path: p, Tree: genTree(t, 3),
			Prior: rapid.SampledFrom(dirPriors).Draw(t, "prior"), PriorAt: rapid.IntRange(0, 7).Draw(t, "at")})
	}
	if nf > 0 && rapid.IntRange(0, 3).Draw(t, "bin") == 0 {
		c.Outputs[0].Bin = true
		c.Outputs[0].Exec = true // grog marks bin outputs executable before caching them
	}
	return c
}

func TestMain(m *testing.M) {
	dir, err := os.MkdirTemp("", "c06-")
	if err != nil {
		panic(err)
	}
	tmpRoot = dir
	code := m.Run()
	_ = os.RemoveAll(dir)
	os.Exit(code)
}

func TestRoundTrip(t *testing.T) {
	pbt.Main(t, pbt.Spec[Case]{ID: "C06", Gen: gen, Run: run})
}
