package c06

import (
	"context"
	"fmt"
	"os"
	"path/filepath"
	"testing"

	"grog/internal/label"
	"grog/internal/model"
	"grog/verif/lib/pbt"

	"pgregory.net/rapid"
)

// Part of C13 ("dependants are invalidated only if the re-executed target's outputs actually changed"): what a
// dependant folds into its key is the target's output hash. It is computed along two paths - Registry.WriteOutputs when
// the result is cached, Registry.GetNoCacheOutputHash when it is not (no-cache tag, --enable-cache=false) - and a target
// moves between the two when the tag or the flag changes. For the same outputs on disk both must give the same hash, and
// after any single change of what a dependant can observe (content, exec bit, a path) both must give a different one.
// Outputs here include what the history engine does not generate: file outputs that are symbolic links.

type HCase struct {
	Case
	LinkOutput int    `json:"link_output"` // index+1 of a file output that is a symlink to a sibling file (0: none)
	Mutate     string `json:"mutate"`      // "" | content | exec | none
}

func materialise(pkgDir string, c HCase) (model.Target, error) {
	target := model.Target{Label: label.TargetLabel{Package: c.Pkg, Name: "t"}, ChangeHash: "c13h"}
	nfile := 0
	for _, o := range c.Outputs {
		abs := filepath.Join(pkgDir, o.Path)
		if o.Type == "dir" {
			if err := writeTree(abs, o.Tree); err != nil {
				return target, err
			}
			target.Outputs = append(target.Outputs, model.NewOutput("dir", o.Path))
			continue
		}
		nfile++
		if nfile == c.LinkOutput {
			// the declared output is a link to the real file next to it
			real := abs + ".real"
			if err := writeTree(filepath.Dir(abs), []Node{{Name: filepath.Base(real), Kind: "file", Content: o.Content, Exec: o.Exec}}); err != nil {
				return target, err
			}
			_ = os.Remove(abs)
			if err := os.Symlink(filepath.Base(real), abs); err != nil {
				return target, err
			}
		} else if err := writeTree(filepath.Dir(abs), []Node{{Name: filepath.Base(abs), Kind: "file", Content: o.Content, Exec: o.Exec}}); err != nil {
			return target, err
		}
		if o.Bin {
			target.BinOutput = model.NewOutput("file", o.Path)
		} else {
			target.Outputs = append(target.Outputs, model.NewOutput("file", o.Path))
		}
	}
	return target, nil
}

func runHashAgreement(c HCase) (pbt.Result, error) {
	res := pbt.Result{}
	ws, err := setup(c.Algo)
	if err != nil {
		return pbt.Result{Discard: true}, nil
	}
	pkgDir := filepath.Join(ws, c.Pkg)
	if err := os.MkdirAll(pkgDir, 0o755); err != nil {
		return pbt.Result{Discard: true}, nil
	}
	target, err := materialise(pkgDir, c)
	if err != nil {
		return pbt.Result{Discard: true}, nil
	}
	ctx := context.Background()
	both := func(when string) (string, error) {
		t1 := target
		uncached, err := registry.GetNoCacheOutputHash(ctx, &t1)
		if err != nil {
			return "", pbt.Fail("C13:no-cache-output-hash-error", "%s: GetNoCacheOutputHash: %v", when, err)
		}
		t2 := target
		cached, err := registry.WriteOutputs(ctx, &t2, nil)
		if err != nil {
			return "", pbt.Fail("C13:write-outputs-error", "%s: WriteOutputs: %v", when, err)
		}
		if cached.OutputHash != uncached.OutputHash {
			return "", pbt.Fail("C13:output-hash-depends-on-cache-mode", "%s: the same outputs hash to %s when the result is cached and to %s when it is not (symlinked file output: #%d): a dependant is invalidated by nothing but the mode switch", when, cached.OutputHash, uncached.OutputHash, c.LinkOutput)
		}
		return cached.OutputHash, nil
	}
	h1, err := both("as built")
	if err != nil {
		return res, err
	}
	res.Classes = append(res.Classes, fmt.Sprintf("symlinked-file-output:%v", c.LinkOutput > 0 && c.LinkOutput <= countFiles(c.Case)))
	// one observable change: both formulas must move
	var firstFile *Out
	for i := range c.Outputs {
		if c.Outputs[i].Type == "file" {
			firstFile = &c.Outputs[i]
			break
		}
	}
	if firstFile != nil && c.Mutate != "" {
		switch c.Mutate {
		case "content":
			firstFile.Content += "!"
		case "exec":
			if firstFile.Bin {
				return res, nil // grog forces the bit for bin outputs
			}
			firstFile.Exec = !firstFile.Exec
		}
		if c.Mutate != "none" {
			_ = os.RemoveAll(pkgDir)
			_ = os.MkdirAll(pkgDir, 0o755)
			if target, err = materialise(pkgDir, c); err != nil {
				return pbt.Result{Discard: true}, nil
			}
		}
		h2, err := both("after " + c.Mutate)
		if err != nil {
			return res, err
		}
		if (h1 == h2) != (c.Mutate == "none") {
			return res, pbt.Fail("C13:output-hash-ignores-change", "mutation %q of the first file output: output hash before %s, after %s", c.Mutate, h1, h2)
		}
		res.Classes = append(res.Classes, "mutate:"+c.Mutate)
	}
	res.NonTrivial = len(c.Outputs) >= 2 || c.LinkOutput > 0
	return res, nil
}

func countFiles(c Case) int {
	n := 0
	for _, o := range c.Outputs {
		if o.Type == "file" {
			n++
		}
	}
	return n
}

func TestHashAgreement(t *testing.T) {
	pbt.Main(t, pbt.Spec[HCase]{ID: "C13", Run: runHashAgreement,
		Gen: func(t *rapid.T) HCase {
			return HCase{Case: gen(t), LinkOutput: rapid.IntRange(0, 2).Draw(t, "link"), Mutate: rapid.SampledFrom([]string{"", "content", "exec", "none"}).Draw(t, "mutate")}
		}})
}
