package c06

// Part "binary-run": "a restored binary output must still be runnable". Real binary: a target with a bin_output is
// built (cached), its workspace copy is deleted / its directory removed / truncated, and `grog run <label>` has to
// restore it from the cache (the command must not run again) and execute it successfully.

import (
	"fmt"
	"os"
	"path/filepath"
	"strings"
	"testing"
	"time"

	"grog/verif/lib/histeng"
	"grog/verif/lib/pbt"

	"pgregory.net/rapid"
)

type RunCase struct {
	WS    histeng.WS `json:"workspace"`
	Tool  int        `json:"tool_index"`
	Prior string     `json:"prior_state"` // delete | delete-dir | truncate | chmod | intact
	InPkg bool       `json:"run_in_package"`
}

func TestBinaryRun(t *testing.T) {
	bin := os.Getenv("GROG_BIN")
	if bin == "" {
		t.Skip("GROG_BIN not set")
	}
	pbt.Main(t, pbt.Spec[RunCase]{ID: "C06",
		Gen: func(t *rapid.T) RunCase {
			w := histeng.GenWS(t, histeng.Profile{MaxTargets: 4, DirOutputs: true, BinOutputs: true})
			// make sure at least one target has a bin output
			i := rapid.IntRange(0, len(w.Targets)-1).Draw(t, "tool")
			tg := &w.Targets[i]
			if tg.Bin == "" {
				tg.Bin = fmt.Sprintf("bin/%s.sh", tg.Name)
			}
			return RunCase{WS: w, Tool: i, Prior: rapid.SampledFrom([]string{"delete", "delete-dir", "truncate", "chmod", "intact"}).Draw(t, "prior"), InPkg: rapid.Bool().Draw(t, "inpkg")}
		},
		Run: func(c RunCase) (pbt.Result, error) {
			res := pbt.Result{Classes: []string{"prior:" + c.Prior}}
			base, err := os.MkdirTemp("", "c06run-")
			if err != nil {
				return pbt.Result{Discard: true}, nil
			}
			defer os.RemoveAll(base)
			sb, err := histeng.NewSandbox(base, bin)
			if err != nil {
				return pbt.Result{Discard: true}, nil
			}
			w := c.WS.Clone()
			if err := sb.Sync(w); err != nil {
				return pbt.Result{Discard: true}, nil
			}
			tool := &w.Targets[c.Tool%len(w.Targets)]
			b := sb.Build(histeng.BuildOpts{Patterns: []string{tool.Label()}}, 120*time.Second)
			if b.Exit != 0 {
				return res, pbt.Fail("C01:valid-build-failed", "initial build failed\n%s", b.Out)
			}
			binPath := filepath.Join(sb.WS, tool.OutPath(tool.Bin))
			switch c.Prior {
			case "delete":
				_ = os.Remove(binPath)
			case "delete-dir":
				_ = os.RemoveAll(filepath.Dir(binPath))
			case "truncate":
				_ = os.Truncate(binPath, 3)
			case "chmod":
				_ = os.Chmod(binPath, 0o644)
			}
			args := []string{"run"}
			if c.InPkg {
				args = append(args, "-i")
			}
			args = append(args, tool.Label())
			r := sb.Grog("", 120*time.Second, args...)
			tail := fmt.Sprintf("\ngrog %v exit=%d trace=%v\n%s", args, r.Exit, r.Lines, r.Out)
			if r.Started[tool.Label()] > 0 {
				return res, pbt.Fail("C02:executed-despite-valid-cache", "the tool was rebuilt instead of restored (prior state of the binary: %s)%s", c.Prior, tail)
			}
			if r.Exit != 0 {
				return res, pbt.Fail("restored-binary-not-runnable", "grog run failed after the binary output was restored from the cache (prior state: %s)%s", c.Prior, tail)
			}
			_, bodies := w.Expect()
			first := strings.SplitN(bodies[tool.Label()], "\n", 2)[0]
			if !strings.Contains(r.Out, first) {
				return res, pbt.Fail("restored-binary-wrong-output", "the restored binary ran but did not print %q%s", first, tail)
			}
			fi, err := os.Stat(binPath)
			if err != nil || fi.Mode()&0o111 == 0 {
				return res, pbt.Fail("restore-differs:file:exec-bit", "restored binary output is not executable (err=%v)", err)
			}
			res.NonTrivial = c.Prior != "intact"
			return res, nil
		}})
}
