package c07

// Part "op-faults" (fault enumeration): the executor is assembled in-process as RunBuild does, over a decorated
// cache backend that numbers every Get/Set/Exists/Delete of a build. A dry run counts the N operations of a cold
// build and of a warm partial rebuild; then for EVERY n (or a stride in the quick tier) and each mode in
// {error, crash-before, crash-after} the same build is repeated in a child process with the fault at operation n.
// After each faulted build: the cache directory must pass the audit, and a fault-free build must succeed with
// byte-exact outputs.

import (
	"context"
	"encoding/json"
	"errors"
	"fmt"
	"io"
	"os"
	"os/exec"
	"path/filepath"
	"strconv"
	"strings"
	"sync"
	"syscall"
	"testing"

	"grog/internal/caching/backends"
	"grog/verif/lib/audit"
	"grog/verif/lib/histeng"
	"grog/verif/lib/inproc"
	"grog/verif/lib/pbt"

	"pgregory.net/rapid"
)

type countingBackend struct {
	inner   backends.CacheBackend
	mu      sync.Mutex
	n       int
	faultAt int    // -1 none
	mode    string // error | crash-before | crash-after
	log     []string
}

func (c *countingBackend) step(op, path, key string) (fault bool, after func()) {
	c.mu.Lock()
	n := c.n
	c.n++
	c.log = append(c.log, fmt.Sprintf("%d %s %s/%s", n, op, path, shorten(key)))
	c.mu.Unlock()
	if n != c.faultAt {
		return false, func() {}
	}
	switch c.mode {
	case "crash-before":
		_ = syscall.Kill(os.Getpid(), syscall.SIGKILL)
		select {}
	case "crash-after":
		return false, func() { _ = syscall.Kill(os.Getpid(), syscall.SIGKILL); select {} }
	}
	return true, func() {}
}

func shorten(k string) string {
	if len(k) > 12 {
		return k[:12]
	}
	return k
}

var errFault = errors.New("injected backend fault")

func (c *countingBackend) TypeName() string { return c.inner.TypeName() }
func (c *countingBackend) Get(ctx context.Context, path, key string) (io.ReadCloser, error) {
	fault, after := c.step("get", path, key)
	if fault {
		return nil, errFault
	}
	r, err := c.inner.Get(ctx, path, key)
	after()
	return r, err
}
func (c *countingBackend) Set(ctx context.Context, path, key string, content io.Reader) error {
	fault, after := c.step("set", path, key)
	if fault {
		_, _ = io.Copy(io.Discard, content)
		return errFault
	}
	err := c.inner.Set(ctx, path, key, content)
	after()
	return err
}
func (c *countingBackend) Delete(ctx context.Context, path, key string) error {
	fault, after := c.step("delete", path, key)
	if fault {
		return errFault
	}
	err := c.inner.Delete(ctx, path, key)
	after()
	return err
}
func (c *countingBackend) Exists(ctx context.Context, path, key string) (bool, error) {
	fault, after := c.step("exists", path, key)
	if fault {
		return false, errFault
	}
	ok, err := c.inner.Exists(ctx, path, key)
	after()
	return ok, err
}

// TestOpFaultChild: one in-process build with an optional fault (child process of the enumeration).
func TestOpFaultChild(t *testing.T) {
	spec := os.Getenv("C07_OPFAULT")
	if spec == "" {
		t.Skip("child only")
	}
	parts := strings.Split(spec, ",") // faultAt,mode,workers,algo
	faultAt, _ := strconv.Atoi(parts[0])
	workers, _ := strconv.Atoi(parts[2])
	cb := &countingBackend{faultAt: faultAt, mode: parts[1]}
	res := inproc.Build(os.Getenv("C07_WS"), os.Getenv("C07_ROOT"), workers, parts[3], func(b backends.CacheBackend) backends.CacheBackend { cb.inner = b; return cb })
	out := map[string]any{"ops": cb.n, "failed": res.Failed, "succeeded": res.Succeeded, "err": fmt.Sprint(res.Err), "log": cb.log}
	b, _ := json.Marshal(out)
	_ = os.WriteFile(os.Getenv("C07_RESULT"), b, 0o644)
}

type OpFaultCase struct {
	WS     histeng.WS `json:"workspace"`
	Stride int        `json:"stride"`
	Offset int        `json:"offset"`
}

type childResult struct {
	Ops       int      `json:"ops"`
	Failed    []string `json:"failed"`
	Succeeded int      `json:"succeeded"`
	Err       string   `json:"err"`
	Log       []string `json:"log"`
	Killed    bool
}

func runChild(sb *histeng.Sandbox, w histeng.WS, faultAt int, mode string) (childResult, error) {
	resultFile := filepath.Join(sb.Base, "child-result.json")
	_ = os.Remove(resultFile)
	cmd := exec.Command(os.Args[0], "-test.run", "^TestOpFaultChild$", "-test.count=1")
	workers := w.Workers
	if workers < 1 {
		workers = 2
	}
	cmd.Env = append(os.Environ(), fmt.Sprintf("C07_OPFAULT=%d,%s,%d,%s", faultAt, mode, workers, w.Algo), "C07_WS="+sb.WS, "C07_ROOT="+sb.Root, "C07_RESULT="+resultFile,
		"TRACE="+sb.Trace, "EXT="+sb.ExtDir, "HOME="+sb.Home, "LC_ALL=C", "VERIF_OUT=", "VERIF_REPLAY=")
	out, _ := cmd.CombinedOutput()
	var cr childResult
	cr.Killed = cmd.ProcessState != nil && !cmd.ProcessState.Exited()
	data, err := os.ReadFile(resultFile)
	if err != nil {
		if cr.Killed {
			return cr, nil
		}
		return cr, fmt.Errorf("child wrote no result: %s", string(out))
	}
	_ = json.Unmarshal(data, &cr)
	return cr, nil
}

func runOpFaults(c OpFaultCase) (pbt.Result, error) {
	res := pbt.Result{}
	base, err := os.MkdirTemp(tmpRoot, "opf-")
	if err != nil {
		return pbt.Result{Discard: true}, nil
	}
	defer os.RemoveAll(base)
	sb, err := histeng.NewSandbox(base, "")
	if err != nil {
		return pbt.Result{Discard: true}, nil
	}
	w := c.WS.Clone()
	expect, _ := w.Expect()
	selected := histeng.Select(w, []string{"//..."})
	reset := func(warm bool) error {
		// fresh cache and fresh checkout; for the warm scenario: one clean build, then every command changes (partial knowledge in the cache)
		_ = os.RemoveAll(sb.Root)
		_ = os.MkdirAll(sb.Root, 0o755)
		_ = os.RemoveAll(sb.WS)
		_ = os.MkdirAll(sb.WS, 0o755)
		sb.ForgetRendered()
		ww := w.Clone()
		if warm {
			for i := range ww.Targets {
				ww.Targets[i].Nonce += 100
			}
			if err := sb.Sync(ww); err != nil {
				return err
			}
			if cr, err := runChild(sb, ww, -1, "none"); err != nil || len(cr.Failed) > 0 || cr.Err != "<nil>" {
				return fmt.Errorf("warm-up build failed: %v %+v", err, cr)
			}
		}
		return sb.Sync(w)
	}
	total := 0
	for _, warm := range []bool{false, true} {
		if err := reset(warm); err != nil {
			return res, fmt.Errorf("harness: %w", err)
		}
		dry, err := runChild(sb, w, -1, "none")
		if err != nil || dry.Err != "<nil>" || len(dry.Failed) > 0 {
			return res, pbt.Fail("C01:valid-build-failed", "fault-free in-process build failed: %v %+v", err, dry)
		}
		if err := sb.CompareOutputs(expect, selected); err != nil {
			return res, pbt.Fail("C01:wrong-output-after-execution", "fault-free in-process build: %v", err)
		}
		n := dry.Ops
		for at := c.Offset % max(1, c.Stride); at < n; at += max(1, c.Stride) {
			for _, mode := range []string{"error", "crash-before", "crash-after"} {
				if err := reset(warm); err != nil {
					return res, fmt.Errorf("harness: %w", err)
				}
				cr, err := runChild(sb, w, at, mode)
				_ = cr
				if err != nil {
					return res, pbt.Fail("C04:internal-crash", "build with %s at backend operation %d (%s) died abnormally: %v", mode, at, opName(dry.Log, at), err)
				}
				total++
				what := fmt.Sprintf("%s at backend operation %d/%d (%s), warm=%v", mode, at, n, opName(dry.Log, at), warm)
				// (1) the cache never exposes a partial or mismatching entry
				for _, cdir := range sb.CacheDirs() {
					st, aerr := audit.LoadDir(cdir)
					if aerr != nil {
						return res, fmt.Errorf("harness: audit: %w", aerr)
					}
					if ps := audit.Check(st); len(ps) > 0 {
						return res, pbt.Fail("C07:"+ps[0].Kind, "after %s the cache is inconsistent: %s", what, ps[0].Msg)
					}
				}
				// (2) the next, fault-free build on the same cache and workspace succeeds with exact outputs
				rec, err := runChild(sb, w, -1, "none")
				if err != nil || rec.Err != "<nil>" || len(rec.Failed) > 0 {
					return res, pbt.Fail("C07:recovery-build-failed", "after %s the next fault-free build fails: err=%v failed=%v %s", what, err, rec.Failed, rec.Err)
				}
				if err := sb.CompareOutputs(expect, selected); err != nil {
					return res, pbt.Fail("C07:wrong-output-after-recovery", "after %s the next build leaves wrong outputs: %v", what, err)
				}
				// (3) ... and what the recovery build published on top of the leftovers is consistent as well (a result must
				// not lean on blobs that only the interrupted build was going to write)
				for _, cdir := range sb.CacheDirs() {
					st, aerr := audit.LoadDir(cdir)
					if aerr != nil {
						return res, fmt.Errorf("harness: audit: %w", aerr)
					}
					if ps := audit.Check(st); len(ps) > 0 {
						return res, pbt.Fail("C07:"+ps[0].Kind+"-after-recovery", "after %s and the fault-free build that followed, the cache is inconsistent: %s", what, ps[0].Msg)
					}
				}
			}
		}
	}
	pbt.Count("fault-points", total)
	res.NonTrivial = total > 0
	res.Classes = append(res.Classes, fmt.Sprintf("fault-points>=30:%v", total >= 30))
	return res, nil
}

func opName(log []string, n int) string {
	if n < len(log) {
		return log[n]
	}
	return "?"
}

func TestOpFaults(t *testing.T) {
	stride := 1
	if os.Getenv("VERIF_TIER") != "thorough" {
		stride = 5
	}
	pbt.Main(t, pbt.Spec[OpFaultCase]{ID: "C07", Run: runOpFaults,
		Gen: func(t *rapid.T) OpFaultCase {
			w := histeng.GenWS(t, histeng.Profile{MaxTargets: 4, DirOutputs: true, Workers: []int{1}})
			for i := range w.Targets {
				w.Targets[i].Shared = rapid.IntRange(0, 2).Draw(t, "shared") == 0
			}
			return OpFaultCase{WS: w, Stride: stride, Offset: rapid.IntRange(0, 4).Draw(t, "offset")}
		}})
}
