package c07

// Part "cas-ops": the content-addressed store in front of a faulty backend. A Write that reports success must
// mean that the blob is retrievable with exactly its content once all in-flight writes have returned — also when
// two targets produce the same digest at the same time and one of the two backend writes fails or is still running.

import (
	"bytes"
	"context"
	"errors"
	"fmt"
	"io"
	"os"
	"sync"
	"testing"

	"grog/internal/caching"
	"grog/verif/lib/pbt"

	"pgregory.net/rapid"
)

type memBackend struct {
	mu       sync.Mutex
	data     map[string][]byte
	failSets map[int]bool // the n-th Set call (0-based) fails after consuming its reader
	sets     int
	hold     map[int]chan struct{} // the n-th Set blocks (after reading) until released
}

func (m *memBackend) TypeName() string { return "mem" }
func (m *memBackend) Get(_ context.Context, path, key string) (io.ReadCloser, error) {
	m.mu.Lock()
	defer m.mu.Unlock()
	b, ok := m.data[path+"/"+key]
	if !ok {
		return nil, os.ErrNotExist
	}
	return io.NopCloser(bytes.NewReader(b)), nil
}
func (m *memBackend) Set(_ context.Context, path, key string, content io.Reader) error {
	m.mu.Lock()
	n := m.sets
	m.sets++
	hold := m.hold[n]
	fail := m.failSets[n]
	m.mu.Unlock()
	b, err := io.ReadAll(content)
	if err != nil {
		return err
	}
	if hold != nil {
		<-hold
	}
	if fail {
		return errors.New("injected backend write fault")
	}
	m.mu.Lock()
	m.data[path+"/"+key] = b
	m.mu.Unlock()
	return nil
}
func (m *memBackend) Delete(_ context.Context, path, key string) error {
	m.mu.Lock()
	defer m.mu.Unlock()
	delete(m.data, path+"/"+key)
	return nil
}
func (m *memBackend) Exists(_ context.Context, path, key string) (bool, error) {
	m.mu.Lock()
	defer m.mu.Unlock()
	_, ok := m.data[path+"/"+key]
	return ok, nil
}

type CasOp struct {
	Digest     int  `json:"digest"`
	Concurrent bool `json:"concurrent"` // two writers of this digest at once; the first one's backend write is held until the second returned
	FailFirst  bool `json:"fail_first"`
	FailSecond bool `json:"fail_second"`
}

type CasCase struct {
	Ops []CasOp `json:"ops"`
}

func runCas(c CasCase) (pbt.Result, error) {
	res := pbt.Result{}
	ctx := context.Background()
	be := &memBackend{data: map[string][]byte{}, failSets: map[int]bool{}, hold: map[int]chan struct{}{}}
	cas := caching.NewCas(be)
	for i, op := range c.Ops {
		digest := fmt.Sprintf("d%02d", op.Digest)
		data := []byte("content-of-" + digest)
		var errs []error
		if !op.Concurrent {
			be.mu.Lock()
			be.failSets[be.sets] = op.FailFirst
			be.mu.Unlock()
			errs = append(errs, cas.Write(ctx, digest, bytes.NewReader(data)))
		} else {
			res.NonTrivial = true
			be.mu.Lock()
			first := be.sets
			hold := make(chan struct{})
			be.hold[first] = hold
			be.failSets[first] = op.FailFirst
			be.failSets[first+1] = op.FailSecond
			be.mu.Unlock()
			var e1, e2 error
			var wg sync.WaitGroup
			wg.Add(1)
			go func() { defer wg.Done(); e1 = cas.Write(ctx, digest, bytes.NewReader(data)) }()
			// wait until the first writer is inside the backend (or returned without going there)
			for {
				be.mu.Lock()
				in := be.sets > first
				be.mu.Unlock()
				if in {
					break
				}
				done := make(chan struct{})
				go func() { wg.Wait(); close(done) }()
				select {
				case <-done:
				default:
					continue
				}
				break
			}
			e2 = cas.Write(ctx, digest, bytes.NewReader(data)) // while the first write is still in flight
			close(hold)
			wg.Wait()
			errs = append(errs, e1, e2)
			if op.FailFirst || op.FailSecond {
				res.Classes = append(res.Classes, "concurrent-same-digest-with-fault")
			} else {
				res.Classes = append(res.Classes, "concurrent-same-digest")
			}
		}
		for _, err := range errs {
			if err != nil {
				continue
			}
			// a successful Write => retrievable with exact content, now that everything in flight has returned
			got, lerr := cas.LoadBytes(ctx, digest)
			if lerr != nil {
				return res, pbt.Fail("write-succeeded-but-blob-missing", "op %d: Cas.Write(%s) returned nil but the blob is not in the store: %v", i, digest, lerr)
			}
			if !bytes.Equal(got, data) {
				return res, pbt.Fail("wrong-content", "op %d: blob %s has wrong content", i, digest)
			}
		}
	}
	return res, nil
}

func TestCasOps(t *testing.T) {
	pbt.Main(t, pbt.Spec[CasCase]{ID: "C07", Run: runCas,
		Gen: func(t *rapid.T) CasCase {
			var c CasCase
			for i := rapid.IntRange(1, 6).Draw(t, "nops"); i > 0; i-- {
				c.Ops = append(c.Ops, CasOp{Digest: rapid.IntRange(0, 3).Draw(t, "digest"), Concurrent: rapid.Bool().Draw(t, "concurrent"),
					FailFirst: rapid.IntRange(0, 2).Draw(t, "fail1") == 0, FailSecond: rapid.IntRange(0, 3).Draw(t, "fail2") == 0})
			}
			return c
		}})
}
