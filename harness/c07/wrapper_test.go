package c07

import (
	"bytes"
	"context"
	"errors"
	"fmt"
	"io"
	"os"
	"path/filepath"
	"sync"
	"testing"

	"grog/internal/caching"
	"grog/internal/caching/backends"
	"grog/internal/config"
	"grog/verif/lib/pbt"

	"pgregory.net/rapid"
)

// ------------------------------------------------------------- part: write-through under faults of either half
//
// RemoteWrapper.Set mirrors one source stream into the local file cache and the remote store. The remote twin below
// behaves like grog's S3/GCS backends: it consumes the stream and commits the object only when the stream ended with a
// clean EOF. One fault per write: the source fails after n chunks, the local half fails before it reads anything (its
// directory is a regular file) or at the very end (the destination path is a directory), the remote half stops reading
// after k bytes or refuses the commit. Oracle after every operation, for both stores: an object visible under a digest
// has exactly that digest's content; a write that reported success is visible in both.

type streamRemote struct {
	mu        sync.Mutex
	data      map[string][]byte
	stopAfter int  // >=0: return an error after reading that many bytes
	refuse    bool // consume everything, then fail
}

func (m *streamRemote) TypeName() string { return "stream" }
func (m *streamRemote) Get(_ context.Context, path, key string) (io.ReadCloser, error) {
	m.mu.Lock()
	defer m.mu.Unlock()
	b, ok := m.data[path+"/"+key]
	if !ok {
		return nil, os.ErrNotExist
	}
	return io.NopCloser(bytes.NewReader(b)), nil
}
func (m *streamRemote) Set(_ context.Context, path, key string, content io.Reader) error {
	var buf bytes.Buffer
	if m.stopAfter >= 0 {
		_, _ = io.CopyN(&buf, content, int64(m.stopAfter))
		return errors.New("injected remote fault while receiving")
	}
	if _, err := io.Copy(&buf, content); err != nil {
		return err
	}
	if m.refuse {
		return errors.New("injected remote fault at commit")
	}
	m.mu.Lock()
	defer m.mu.Unlock()
	m.data[path+"/"+key] = buf.Bytes()
	return nil
}
func (m *streamRemote) Delete(_ context.Context, path, key string) error {
	m.mu.Lock()
	defer m.mu.Unlock()
	delete(m.data, path+"/"+key)
	return nil
}
func (m *streamRemote) Exists(_ context.Context, path, key string) (bool, error) {
	m.mu.Lock()
	defer m.mu.Unlock()
	_, ok := m.data[path+"/"+key]
	return ok, nil
}

type WFOp struct {
	Via   string `json:"via"`   // wrapper | cas
	Blob  int    `json:"blob"`  // content(Blob) under digest d<Blob>
	Fault string `json:"fault"` // "" | source | local-early | local-late | remote-read | remote-commit
	At    int    `json:"at"`    // chunk index (source) or byte count (remote-read)
	Chunk int    `json:"chunk"` // source chunk size
}

type WFCase struct {
	Ops []WFOp `json:"ops"`
}

func runWrapperFaults(c WFCase) (pbt.Result, error) {
	res := pbt.Result{}
	base, err := os.MkdirTemp(tmpRoot, "wf-")
	if err != nil {
		return pbt.Result{Discard: true}, nil
	}
	defer os.RemoveAll(base)
	config.Global = config.WorkspaceConfig{Root: filepath.Join(base, "root"), WorkspaceRoot: filepath.Join(base, "ws")}
	ctx := context.Background()
	fsc, err := backends.NewFileSystemCache(ctx)
	if err != nil {
		return res, err
	}
	rem := &streamRemote{data: map[string][]byte{}, stopAfter: -1}
	wrapper := backends.NewRemoteWrapper(fsc, rem)
	// where the local half puts digest d: found by writing a probe next to it
	if err := fsc.Set(ctx, "cas", "probe", bytes.NewReader([]byte("p"))); err != nil {
		return res, err
	}
	var casDir string
	_ = filepath.Walk(base, func(p string, info os.FileInfo, err error) error {
		if err == nil && !info.IsDir() && info.Name() == "probe" {
			casDir = filepath.Dir(p)
		}
		return nil
	})
	if casDir == "" {
		return res, errors.New("harness: probe blob not found")
	}
	_ = fsc.Delete(ctx, "cas", "probe")

	audit := func(when string) error {
		for b := 0; b < 12; b++ {
			d, want := fmt.Sprintf("d%02d", b), content(b)
			rem.mu.Lock()
			got, ok := rem.data["cas/"+d]
			rem.mu.Unlock()
			if ok && !bytes.Equal(got, want) {
				return pbt.Fail("partial-object-visible-in-remote", "%s: the remote store exposes %d bytes under digest %s whose content has %d bytes", when, len(got), d, len(want))
			}
			if r, err := fsc.Get(ctx, "cas", d); err == nil {
				lb, rerr := io.ReadAll(r)
				r.Close()
				if rerr != nil || !bytes.Equal(lb, want) {
					return pbt.Fail("partial-object-visible-locally", "%s: the local cache exposes %d bytes (read error %v) under digest %s whose content has %d bytes", when, len(lb), rerr, d, len(want))
				}
			}
		}
		return nil
	}

	for i, op := range c.Ops {
		d, data := fmt.Sprintf("d%02d", op.Blob), content(op.Blob)
		rem.stopAfter, rem.refuse = -1, false
		var undo func()
		localBefore, _ := fsc.Exists(ctx, "cas", d)
		remoteBefore, _ := rem.Exists(ctx, "cas", d)
		src := &gatedReader{data: data, chunk: max(op.Chunk, len(data)/64, 1), failAt: -1}
		switch op.Fault {
		case "source":
			src.failAt = op.At
		case "local-early":
			// the cache's cas directory is not a directory: every local write fails before it reads a byte
			saved := casDir + ".saved"
			if err := os.Rename(casDir, saved); err != nil {
				return res, fmt.Errorf("harness: %w", err)
			}
			_ = os.WriteFile(casDir, []byte("x"), 0644)
			undo = func() { _ = os.Remove(casDir); _ = os.Rename(saved, casDir) }
		case "local-late":
			// something un-replaceable sits at the blob's final path: the local write fails after the whole stream was consumed
			if localBefore || (op.Via == "cas" && remoteBefore) {
				// the blob is there already: nothing to block; and Cas takes the blocking directory for an existing blob,
				// which with the remote copy present makes it skip the write - an artefact of this injection, not of grog
				op.Fault = ""
				break
			}
			_ = os.MkdirAll(filepath.Join(casDir, d, "x"), 0755)
			undo = func() { _ = os.RemoveAll(filepath.Join(casDir, d)) }
		case "remote-read":
			rem.stopAfter = op.At * 997 % (len(data) + 1)
		case "remote-commit":
			rem.refuse = true
		}
		var werr error
		if op.Via == "cas" {
			werr = caching.NewCas(wrapper).Write(ctx, d, src)
		} else {
			werr = wrapper.Set(ctx, "cas", d, src)
		}
		if undo != nil {
			undo()
		}
		when := fmt.Sprintf("op %d (%s write of %s, %d bytes, fault=%q at=%d)", i, op.Via, d, len(data), op.Fault, op.At)
		faulted := op.Fault != "" && (op.Fault != "source" || src.failed)
		if faulted {
			res.NonTrivial = true
			res.Classes = append(res.Classes, "fault:"+op.Fault)
		}
		if err := audit(when); err != nil {
			return res, err
		}
		if werr == nil {
			l, _ := fsc.Exists(ctx, "cas", d)
			r, _ := rem.Exists(ctx, "cas", d)
			if !l || !r {
				return res, pbt.Fail("write-reported-success-but-blob-missing", "%s returned nil; local has it: %v, remote has it: %v (before: local %v remote %v)", when, l, r, localBefore, remoteBefore)
			}
			if faulted && !(localBefore && remoteBefore) {
				return res, pbt.Fail("write-reported-success-despite-fault", "%s returned nil although one half of the write-through failed", when)
			}
		}
	}
	return res, nil
}

func TestWrapperFaults(t *testing.T) {
	pbt.Main(t, pbt.Spec[WFCase]{ID: "C07", Run: runWrapperFaults,
		Gen: func(t *rapid.T) WFCase {
			var c WFCase
			for i := rapid.IntRange(1, 6).Draw(t, "nops"); i > 0; i-- {
				c.Ops = append(c.Ops, WFOp{Via: rapid.SampledFrom([]string{"wrapper", "cas"}).Draw(t, "via"), Blob: rapid.IntRange(0, 11).Draw(t, "blob"),
					Fault: rapid.SampledFrom([]string{"", "source", "source", "local-early", "local-late", "remote-read", "remote-commit"}).Draw(t, "fault"),
					At:    rapid.IntRange(0, 12).Draw(t, "at"), Chunk: rapid.SampledFrom([]int{1, 512, 4096, 32768, 100000}).Draw(t, "chunk")})
			}
			return c
		}})
}
