// C07 — the cache stays consistent across crashes and storage faults.
package c07

import (
	"bytes"
	"context"
	"encoding/json"
	"errors"
	"fmt"
	"io"
	"os"
	"os/exec"
	"path/filepath"
	"sort"
	"strings"
	"syscall"
	"testing"

	"grog/internal/caching/backends"
	"grog/internal/config"
	"grog/verif/lib/histeng"
	"grog/verif/lib/pbt"

	"pgregory.net/rapid"
)

// ------------------------------------------------------------- part 1: backend operation sequences

type Op struct {
	Kind     string `json:"kind"` // set | set-fail | set-pair | get | exists | delete
	Key      int    `json:"key"`
	Content  int    `json:"content"`
	Content2 int    `json:"content2,omitempty"`
	FailAt   int    `json:"fail_at,omitempty"` // chunk index at which the (first) reader fails (-1: never)
	Order    []int  `json:"order,omitempty"`   // set-pair: which writer receives its next chunk
	Fail2    bool   `json:"fail_second,omitempty"`
}

type OpsCase struct {
	Ops []Op `json:"ops"`
}

var keyPool = []string{"k0", "k1", "nested/k2", "k3"}

func content(i int) []byte {
	sizes := []int{0, 1, 10, 4096, 70000, 200000}
	n := sizes[i%len(sizes)]
	b := make([]byte, n)
	for j := range b {
		b[j] = byte('a' + (i+j/1000)%26)
	}
	return append(b, []byte(fmt.Sprintf("#%d", i))...)
}

// gatedReader hands out its content chunk by chunk. With a controller attached every Read first reports
// "arrived" (which implies that the previous chunk has been written by the copy loop) and then waits for
// its grant, so the controller owns the interleaving of two writers at chunk granularity.
type gatedReader struct {
	data   []byte
	chunk  int
	pos    int
	n      int
	failAt int
	failed bool          // the injected fault was delivered
	arrive chan struct{} // nil: free running
	grant  chan struct{}
}

var errInjected = errors.New("injected read fault")

func (g *gatedReader) Read(p []byte) (int, error) {
	if g.arrive != nil {
		g.arrive <- struct{}{}
		<-g.grant
	}
	if g.failAt >= 0 && g.n >= g.failAt {
		g.failed = true
		return 0, errInjected
	}
	g.n++
	if g.pos >= len(g.data) {
		return 0, io.EOF
	}
	end := min(g.pos+g.chunk, len(g.data), g.pos+len(p))
	n := copy(p, g.data[g.pos:end])
	g.pos += n
	return n, nil
}

var tmpRoot string

func runOps(c OpsCase) (pbt.Result, error) {
	res := pbt.Result{}
	base, err := os.MkdirTemp(tmpRoot, "ops-")
	if err != nil {
		return pbt.Result{Discard: true}, nil
	}
	defer os.RemoveAll(base)
	config.Global = config.WorkspaceConfig{Root: filepath.Join(base, "root"), WorkspaceRoot: filepath.Join(base, "ws")}
	ctx := context.Background()
	fsc, err := backends.NewFileSystemCache(ctx)
	if err != nil {
		return res, err
	}
	// model: key -> set of acceptable contents (nil = must be absent)
	model := map[string][][]byte{}
	readKey := func(k string) ([]byte, bool, error) {
		r, err := fsc.Get(ctx, "cas", k)
		if err != nil {
			if os.IsNotExist(err) {
				return nil, false, nil
			}
			return nil, false, err
		}
		defer r.Close()
		b, err := io.ReadAll(r)
		return b, true, err
	}
	verify := func(when string) error {
		for _, k := range keyPool {
			got, present, err := readKey(k)
			if err != nil {
				return pbt.Fail("get-error", "%s: Get(%s): %v", when, k, err)
			}
			allowed := model[k]
			if len(allowed) == 0 {
				if present {
					return pbt.Fail("key-visible-without-completed-write", "%s: key %s is visible (%d bytes) although no write of it completed", when, k, len(got))
				}
				continue
			}
			if !present {
				return pbt.Fail("completed-write-lost", "%s: key %s is gone although a write of it completed", when, k)
			}
			ok := false
			for _, a := range allowed {
				if bytes.Equal(a, got) {
					ok = true
				}
			}
			if !ok {
				kind := "wrong-content"
				for _, a := range allowed {
					if len(got) < len(a) && bytes.Equal(a[:len(got)], got) {
						kind = "partial-content-visible"
					}
				}
				return pbt.Fail(kind, "%s: key %s holds %d bytes that are none of the %d acceptable complete contents (sizes %v)", when, k, len(got), len(allowed), sizes(allowed))
			}
			exists, err := fsc.Exists(ctx, "cas", k)
			if err != nil || !exists {
				return pbt.Fail("exists-disagrees", "%s: Exists(%s)=%v,%v but Get succeeds", when, k, exists, err)
			}
		}
		return nil
	}
	for i, op := range c.Ops {
		k := keyPool[op.Key%len(keyPool)]
		when := fmt.Sprintf("after op %d (%s %s)", i, op.Kind, k)
		switch op.Kind {
		case "set":
			data := content(op.Content)
			if err := fsc.Set(ctx, "cas", k, &gatedReader{data: data, chunk: 30000, failAt: -1}); err != nil {
				return res, pbt.Fail("set-error", "%s: %v", when, err)
			}
			model[k] = [][]byte{data}
		case "set-fail":
			data := content(op.Content)
			err := fsc.Set(ctx, "cas", k, &gatedReader{data: data, chunk: 20000, failAt: op.FailAt})
			if err == nil {
				// the fault came after the last chunk: a complete write
				model[k] = [][]byte{data}
			} else {
				res.NonTrivial = true
				res.Classes = append(res.Classes, "failed-write")
			}
		case "set-pair":
			a, b := content(op.Content), content(op.Content2)
			ga := &gatedReader{data: a, chunk: 20000, failAt: -1, arrive: make(chan struct{}), grant: make(chan struct{})}
			gb := &gatedReader{data: b, chunk: 20000, failAt: -1, arrive: make(chan struct{}), grant: make(chan struct{})}
			if op.Fail2 {
				gb.failAt = op.FailAt
			}
			var ea, eb error
			doneA, doneB := make(chan struct{}), make(chan struct{})
			go func() { ea = fsc.Set(ctx, "cas", k, ga); close(doneA) }()
			go func() { eb = fsc.Set(ctx, "cas", k, gb); close(doneB) }()
			// step(w): let writer w perform exactly one more read (its previous chunk is on disk by then)
			step := func(g *gatedReader, done chan struct{}) bool {
				select {
				case <-g.arrive:
					g.grant <- struct{}{}
					return true
				case <-done:
					return false
				}
			}
			for _, w := range op.Order {
				if w%2 == 0 {
					step(ga, doneA)
				} else {
					step(gb, doneB)
				}
			}
			// drain: finish A then B (or the other way round, by the last order entry)
			first, firstDone, second, secondDone := ga, doneA, gb, doneB
			if len(op.Order) > 0 && op.Order[len(op.Order)-1]%2 == 0 {
				first, firstDone, second, secondDone = gb, doneB, ga, doneA
			}
			for step(first, firstDone) {
			}
			for step(second, secondDone) {
			}
			<-doneA
			<-doneB
			var okContents [][]byte
			if ea == nil {
				okContents = append(okContents, a)
			}
			if eb == nil {
				okContents = append(okContents, b)
			}
			if len(okContents) > 0 {
				model[k] = okContents
			}
			res.NonTrivial = true
			res.Classes = append(res.Classes, "concurrent-writers")
		case "delete":
			if err := fsc.Delete(ctx, "cas", k); err != nil {
				return res, pbt.Fail("delete-error", "%s: %v", when, err)
			}
			delete(model, k)
		}
		if err := verify(when); err != nil {
			return res, err
		}
		// once observed, a pair's outcome is fixed
		if got, present, _ := readKey(k); present {
			model[k] = [][]byte{got}
		}
	}
	return res, nil
}

func sizes(bs [][]byte) []int {
	var s []int
	for _, b := range bs {
		s = append(s, len(b))
	}
	return s
}

func TestBackendOps(t *testing.T) {
	pbt.Main(t, pbt.Spec[OpsCase]{ID: "C07", Run: runOps,
		Gen: func(t *rapid.T) OpsCase {
			var c OpsCase
			n := rapid.IntRange(1, 8).Draw(t, "nops")
			for i := 0; i < n; i++ {
				op := Op{Kind: rapid.SampledFrom([]string{"set", "set", "set-fail", "set-pair", "set-pair", "delete"}).Draw(t, "kind"),
					Key: rapid.IntRange(0, 3).Draw(t, "key"), Content: rapid.IntRange(0, 11).Draw(t, "content"), Content2: rapid.IntRange(0, 11).Draw(t, "content2"),
					FailAt: rapid.IntRange(0, 12).Draw(t, "failat"), Fail2: rapid.IntRange(0, 3).Draw(t, "fail2") == 0}
				if op.Kind == "set-pair" {
					for j := rapid.IntRange(0, 24).Draw(t, "norder"); j > 0; j-- {
						op.Order = append(op.Order, rapid.IntRange(0, 1).Draw(t, "w"))
					}
				}
				c.Ops = append(c.Ops, op)
			}
			return c
		}})
}

// ------------------------------------------------------------- part 2: the process dies inside Set

type CrashCase struct {
	Old    int `json:"old_content"` // -1: key absent before
	New    int `json:"new_content"`
	KillAt int `json:"kill_at_chunk"`
	KeyIdx int `json:"key"`
}

type killingReader struct {
	gatedReader
	killAt int
}

func (k *killingReader) Read(p []byte) (int, error) {
	if k.n >= k.killAt {
		_ = syscall.Kill(os.Getpid(), syscall.SIGKILL)
		select {}
	}
	return k.gatedReader.Read(p)
}

// TestCrashChild is the body of the child process (does nothing unless C07_CHILD is set).
func TestCrashChild(t *testing.T) {
	spec := os.Getenv("C07_CHILD")
	if spec == "" {
		t.Skip("child only")
	}
	var c CrashCase
	_ = json.Unmarshal([]byte(spec), &c)
	config.Global = config.WorkspaceConfig{Root: os.Getenv("C07_ROOT"), WorkspaceRoot: os.Getenv("C07_WS")}
	fsc, err := backends.NewFileSystemCache(context.Background())
	if err != nil {
		t.Fatal(err)
	}
	r := &killingReader{gatedReader: gatedReader{data: content(c.New), chunk: 20000, failAt: -1}, killAt: c.KillAt}
	_ = fsc.Set(context.Background(), "cas", keyPool[c.KeyIdx%len(keyPool)], r)
}

func runCrash(c CrashCase) (pbt.Result, error) {
	res := pbt.Result{NonTrivial: true}
	base, err := os.MkdirTemp(tmpRoot, "crash-")
	if err != nil {
		return pbt.Result{Discard: true}, nil
	}
	defer os.RemoveAll(base)
	root, ws := filepath.Join(base, "root"), filepath.Join(base, "ws")
	config.Global = config.WorkspaceConfig{Root: root, WorkspaceRoot: ws}
	ctx := context.Background()
	fsc, err := backends.NewFileSystemCache(ctx)
	if err != nil {
		return res, err
	}
	k := keyPool[c.KeyIdx%len(keyPool)]
	var old []byte
	if c.Old >= 0 {
		old = content(c.Old)
		if err := fsc.Set(ctx, "cas", k, bytes.NewReader(old)); err != nil {
			return res, err
		}
	}
	spec, _ := json.Marshal(c)
	cmd := exec.Command(os.Args[0], "-test.run", "^TestCrashChild$", "-test.count=1")
	cmd.Env = append(os.Environ(), "C07_CHILD="+string(spec), "C07_ROOT="+root, "C07_WS="+ws, "VERIF_OUT=", "VERIF_REPLAY=")
	_ = cmd.Run()
	killed := cmd.ProcessState != nil && !cmd.ProcessState.Exited()
	if killed {
		res.Classes = append(res.Classes, "died-inside-set")
	} else {
		res.Classes = append(res.Classes, "set-completed-before-kill")
	}
	r, err := fsc.Get(ctx, "cas", k)
	if err != nil {
		if c.Old >= 0 {
			return res, pbt.Fail("completed-write-lost", "the process died while overwriting %s; the previously complete content is gone: %v", k, err)
		}
		return res, nil
	}
	got, _ := io.ReadAll(r)
	r.Close()
	nw := content(c.New)
	switch {
	case bytes.Equal(got, old) && c.Old >= 0:
	case bytes.Equal(got, nw) && !killed:
	case bytes.Equal(got, nw):
		// the kill came after the last byte was handed over: a complete write is fine
	default:
		kind := "wrong-content"
		if len(got) < len(nw) && bytes.Equal(nw[:len(got)], got) {
			kind = "partial-content-visible"
		}
		return res, pbt.Fail(kind, "after the process died inside Set, key %s holds %d bytes: neither the old (%d) nor the new (%d) complete content", k, len(got), len(old), len(nw))
	}
	return res, nil
}

func TestCrashInSet(t *testing.T) {
	pbt.Main(t, pbt.Spec[CrashCase]{ID: "C07", Run: runCrash,
		Gen: func(t *rapid.T) CrashCase {
			return CrashCase{Old: rapid.IntRange(-1, 11).Draw(t, "old"), New: rapid.IntRange(0, 11).Draw(t, "new"), KillAt: rapid.IntRange(0, 12).Draw(t, "killat"), KeyIdx: rapid.IntRange(0, 3).Draw(t, "key")}
		}})
}

// ------------------------------------------------------------- part 3: kill -9 and storage faults during real builds

var killProfile = histeng.Profile{MaxTargets: 5, Edits: []string{"edit-content", "bump-nonce", "toggle-file"}, DirOutputs: true, MinSteps: 4, MaxSteps: 10,
	Kills: true, CasFaults: true, BigOutputs: true, Workers: []int{2, 4}}

func runHistory(h histeng.History) (pbt.Result, error) {
	obs, err := histeng.RunHistory(h, os.Getenv("GROG_BIN"), histeng.Oracles{Audit: true})
	res := pbt.Result{}
	for c := range obs.Classes {
		res.Classes = append(res.Classes, c)
	}
	sort.Strings(res.Classes)
	res.NonTrivial = obs.NonTrivial["killed-mid-target"] || obs.NonTrivial["killed-after-some-target-finished"] || obs.NonTrivial["storage-fault"]
	if err != nil && strings.HasPrefix(err.Error(), "harness:") {
		return pbt.Result{Discard: true}, nil
	}
	return res, err
}

func TestKillHistories(t *testing.T) {
	if os.Getenv("GROG_BIN") == "" {
		t.Skip("GROG_BIN not set")
	}
	pbt.Main(t, pbt.Spec[histeng.History]{ID: "C07", Run: runHistory,
		Gen: func(t *rapid.T) histeng.History { return histeng.GenHistory(t, killProfile) }})
}

func TestMain(m *testing.M) {
	dir, err := os.MkdirTemp("", "c07-")
	if err != nil {
		panic(err)
	}
	tmpRoot = dir
	code := m.Run()
	_ = os.RemoveAll(dir)
	os.Exit(code)
}
