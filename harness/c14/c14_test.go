// C14 — success implies postconditions: exit 0, outputs exist, checks pass, in time.
package c14

import (
	"os"
	"sort"
	"strings"
	"testing"

	"grog/verif/lib/histeng"
	"grog/verif/lib/pbt"

	"pgregory.net/rapid"
)

var profile = histeng.Profile{MaxTargets: 5, Edits: []string{"edit-content", "bump-nonce"},
	ExtSteps: []string{"clear-marker", "clear-marker", "set-marker", "toggle-noestablish", "set-skipout", "set-skipout", "set-softfail", "set-slow", "set-selfkill", "set-wrongestablish", "set-wrongestablish", "clear-switches"},
	Checks:   true, Timeouts: true, MinSteps: 4, MaxSteps: 12, SubsetBuilds: true, Minimal: true}

func run(h histeng.History) (pbt.Result, error) {
	obs, err := histeng.RunHistory(h, os.Getenv("GROG_BIN"), histeng.Oracles{})
	res := pbt.Result{}
	for c := range obs.Classes {
		res.Classes = append(res.Classes, c)
	}
	sort.Strings(res.Classes)
	res.NonTrivial = obs.Classes["ext:clear-marker"] || obs.Classes["ext:set-skipout"] || obs.Classes["ext:set-slow"] || obs.Classes["ext:set-selfkill"] || obs.Classes["ext:set-wrongestablish"]
	if err != nil && strings.HasPrefix(err.Error(), "harness:") {
		return pbt.Result{Discard: true}, nil
	}
	return res, err
}

func TestHistories(t *testing.T) {
	if os.Getenv("GROG_BIN") == "" {
		t.Skip("GROG_BIN not set")
	}
	pbt.Main(t, pbt.Spec[histeng.History]{ID: "C14", Run: run,
		Gen: func(t *rapid.T) histeng.History { return histeng.GenHistory(t, profile) }})
}
