// C13 — taint, no-cache and enable_cache=false force execution precisely.
package c13

import (
	"os"
	"sort"
	"strings"
	"testing"

	"grog/verif/lib/histeng"
	"grog/verif/lib/pbt"

	"pgregory.net/rapid"
)

var profile = histeng.Profile{MaxTargets: 6, Edits: []string{"edit-content", "bump-nonce", "toggle-nocache", "toggle-nocache"}, Taint: true, NoCacheBuild: true, NoCacheTags: true,
	ExtSteps: []string{"set-fail", "set-softfail", "clear-switches"}, Minimal: true,
	DirOutputs: true, MinSteps: 4, MaxSteps: 12, SubsetBuilds: true, Clean: true, Groups: true}

func run(h histeng.History) (pbt.Result, error) {
	obs, err := histeng.RunHistory(h, os.Getenv("GROG_BIN"), histeng.Oracles{})
	res := pbt.Result{}
	for c := range obs.Classes {
		res.Classes = append(res.Classes, c)
	}
	sort.Strings(res.Classes)
	res.NonTrivial = obs.NonTrivial["forced"]
	if err != nil && strings.HasPrefix(err.Error(), "harness:") {
		return pbt.Result{Discard: true}, nil
	}
	return res, err
}

func TestHistories(t *testing.T) {
	if os.Getenv("GROG_BIN") == "" {
		t.Skip("GROG_BIN not set")
	}
	pbt.Main(t, pbt.Spec[histeng.History]{ID: "C13", Run: run,
		Gen: func(t *rapid.T) histeng.History { return histeng.GenHistory(t, profile) }})
}
