// C01 — incremental builds equal clean builds for every edit history.
package c01

import (
	"os"
	"sort"
	"strings"
	"testing"

	"grog/verif/lib/histeng"
	"grog/verif/lib/pbt"

	"pgregory.net/rapid"
)

var profile = histeng.Profile{MaxTargets: 6, Edits: histeng.AllEdits, DirOutputs: true, BinOutputs: true, MinSteps: 4, MaxSteps: 12, SubsetBuilds: true, Clean: true, Groups: true, Minimal: true}

func run(h histeng.History) (pbt.Result, error) {
	obs, err := histeng.RunHistory(h, os.Getenv("GROG_BIN"), histeng.Oracles{FreshCompareEvery: 4})
	res := pbt.Result{}
	for c := range obs.Classes {
		res.Classes = append(res.Classes, c)
	}
	sort.Strings(res.Classes)
	res.NonTrivial = obs.NonTrivial["hit-after-edit"]
	if err != nil && strings.HasPrefix(err.Error(), "harness:") {
		return pbt.Result{Discard: true}, nil
	}
	return res, err
}

func TestHistories(t *testing.T) {
	if os.Getenv("GROG_BIN") == "" {
		t.Skip("GROG_BIN not set")
	}
	pbt.Main(t, pbt.Spec[histeng.History]{ID: "C01", Run: run,
		Gen: func(t *rapid.T) histeng.History { return histeng.GenHistory(t, profile) }})
}

// genThereAndBack aims at one shape that the free mix of steps reaches rarely: a target goes S1 -> S2 -> S1 -> S3 -> S1 ...
// with a full build after every move. From the second visit on, S1's outputs in the workspace came out of the cache;
// S2's/S3's commands then write over them (most of them in place, as `cmd > out` does), and every return to S1 must
// still be served S1's bytes. Outputs that share storage with the cache (links instead of copies), entries that are
// overwritten by a later state, or a restore that trusts what lies in the workspace all show up as stale bytes here.
func genThereAndBack(t *rapid.T) histeng.History {
	h := histeng.History{WS: histeng.GenWS(t, profile)}
	for i := range h.WS.Targets {
		tg := &h.WS.Targets[i]
		if len(tg.OutFiles) > 0 && !tg.NoCommand && rapid.IntRange(0, 3).Draw(t, "inplace") > 0 {
			tg.InPlace = true
		}
	}
	build := func() histeng.Step {
		o := &histeng.BuildOpts{Patterns: []string{"//..."}}
		if rapid.IntRange(0, 3).Draw(t, "minimal") == 0 {
			o.LoadOutputs = "minimal"
		}
		return histeng.Step{Kind: "build", Build: o}
	}
	h.Steps = append(h.Steps, histeng.Step{Kind: "build", Build: &histeng.BuildOpts{Patterns: []string{"//..."}}})
	nt := rapid.IntRange(1, 2).Draw(t, "ntargets")
	for k := 0; k < nt; k++ {
		T, F := rapid.IntRange(0, 7).Draw(t, "t"), rapid.IntRange(0, 7).Draw(t, "f")
		rounds := rapid.IntRange(2, 3).Draw(t, "rounds")
		for r := 0; r < rounds; r++ {
			var away, back histeng.Step
			if rapid.IntRange(0, 3).Draw(t, "how") == 0 {
				away = histeng.Step{Kind: "toggle-file", T: T, F: F, V: r}
				back = away
			} else {
				away = histeng.Step{Kind: "edit-content", T: T, F: F, V: rapid.IntRange(0, 7).Draw(t, "v")}
				back = histeng.Step{Kind: "restore-content", T: T, F: F}
			}
			h.Steps = append(h.Steps, away, build(), back, build())
		}
	}
	h.Steps = append(h.Steps, histeng.Step{Kind: "build", Build: &histeng.BuildOpts{Patterns: []string{"//..."}}})
	return h
}

func TestThereAndBack(t *testing.T) {
	if os.Getenv("GROG_BIN") == "" {
		t.Skip("GROG_BIN not set")
	}
	pbt.Main(t, pbt.Spec[histeng.History]{ID: "C01", Run: run, Gen: genThereAndBack})
}
