// C01 — incremental builds equal clean builds for every edit history.
package c01

import (
	"os"
	"sort"
	"strings"
	"testing"

	"grog/verif/lib/histeng"
	"grog/verif/lib/pbt"

	"pgregory.net/rapid"
)

var profile = histeng.Profile{MaxTargets: 6, Edits: histeng.AllEdits, DirOutputs: true, BinOutputs: true, MinSteps: 4, MaxSteps: 12, SubsetBuilds: true, Clean: true, Groups: true, Minimal: true}

func run(h histeng.History) (pbt.Result, error) {
	obs, err := histeng.RunHistory(h, os.Getenv("GROG_BIN"), histeng.Oracles{FreshCompareEvery: 4})
	res := pbt.Result{}
	for c := range obs.Classes {
		res.Classes = append(res.Classes, c)
	}
	sort.Strings(res.Classes)
	res.NonTrivial = obs.NonTrivial["hit-after-edit"]
	if err != nil && strings.HasPrefix(err.Error(), "harness:") {
		return pbt.Result{Discard: true}, nil
	}
	return res, err
}

func TestHistories(t *testing.T) {
	if os.Getenv("GROG_BIN") == "" {
		t.Skip("GROG_BIN not set")
	}
	pbt.Main(t, pbt.Spec[histeng.History]{ID: "C01", Run: run,
		Gen: func(t *rapid.T) histeng.History { return histeng.GenHistory(t, profile) }})
}
