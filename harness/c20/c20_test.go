// C20 — query commands agree with the graph and predict rebuilds.
package c20

import (
	"fmt"
	"os"
	"path"
	"path/filepath"
	"sort"
	"strings"
	"testing"
	"time"

	"grog/verif/lib/histeng"
	"grog/verif/lib/pbt"
	"grog/verif/lib/refmodel"
	"grog/verif/lib/wsgen"

	"pgregory.net/rapid"
)

type Query struct {
	Kind       string   `json:"kind"` // owners | list
	Cwd        string   `json:"cwd"`
	Args       []string `json:"args"`
	TargetType string   `json:"target_type,omitempty"`
	Absolute   bool     `json:"absolute,omitempty"`
}

type Case struct {
	WS       histeng.WS `json:"workspace"`
	Renames  []int      `json:"test_renames"` // indices of leaf targets renamed to *_test
	Queries  []Query    `json:"queries"`
	EditFile int        `json:"edit_file"`
	Link     int        `json:"symlinked_file,omitempty"` // 0: none; else 1 + index of the source file that is a symlink
}

const cap = 60 * time.Second

func lines(out string) []string {
	var ls []string
	for _, l := range strings.Split(out, "\n") {
		if strings.TrimSpace(l) != "" {
			ls = append(ls, strings.TrimSpace(l))
		}
	}
	return ls
}

func sortedSet(m map[string]bool) []string {
	var ks []string
	for k, v := range m {
		if v {
			ks = append(ks, k)
		}
	}
	sort.Strings(ks)
	return ks
}

type graphRef struct {
	deps   map[string][]string // node -> direct dependency nodes
	rdeps  map[string][]string
	isTest map[string]bool
	hasBin map[string]bool
	alias  map[string]bool
	nodes  []string
}

func buildRef(w histeng.WS) graphRef {
	g := graphRef{deps: map[string][]string{}, rdeps: map[string][]string{}, isTest: map[string]bool{}, hasBin: map[string]bool{}, alias: map[string]bool{}}
	for _, t := range w.Targets {
		l := t.Label()
		g.nodes = append(g.nodes, l)
		g.isTest[l] = strings.HasSuffix(t.Name, "test")
		g.hasBin[l] = t.Bin != ""
		seen := map[string]bool{}
		for _, d := range t.Deps {
			if !seen[d] {
				seen[d] = true
				g.deps[l] = append(g.deps[l], d)
				g.rdeps[d] = append(g.rdeps[d], l)
			}
		}
	}
	for _, a := range w.Aliases {
		l := a.Label()
		g.nodes = append(g.nodes, l)
		g.alias[l] = true
		g.deps[l] = []string{a.Actual}
		g.rdeps[a.Actual] = append(g.rdeps[a.Actual], l)
	}
	sort.Strings(g.nodes)
	return g
}

func (g graphRef) closure(start string, edges map[string][]string) map[string]bool {
	seen := map[string]bool{}
	stack := append([]string{}, edges[start]...)
	for len(stack) > 0 {
		n := stack[len(stack)-1]
		stack = stack[:len(stack)-1]
		if seen[n] {
			continue
		}
		seen[n] = true
		stack = append(stack, edges[n]...)
	}
	return seen
}

func (g graphRef) typeOK(l, typ string) bool {
	if g.alias[l] {
		return true // aliases carry no type
	}
	switch typ {
	case "test":
		return g.isTest[l]
	case "no_test":
		return !g.isTest[l]
	case "bin_output":
		return g.hasBin[l]
	}
	return true
}

func run(c Case) (pbt.Result, error) {
	res := pbt.Result{}
	bin := os.Getenv("GROG_BIN")
	w := c.WS.Clone()
	// rename selected leaf targets (nobody depends on them) to *_test
	g0 := buildRef(w)
	for _, i := range c.Renames {
		t := &w.Targets[i%len(w.Targets)]
		if len(g0.rdeps[t.Label()]) == 0 && !strings.HasSuffix(t.Name, "test") {
			t.Name += "_test"
		}
	}
	g := buildRef(w)
	base, err := os.MkdirTemp("", "c20-")
	if err != nil {
		return pbt.Result{Discard: true}, nil
	}
	defer os.RemoveAll(base)
	sb, err := histeng.NewSandbox(base, bin)
	if err != nil {
		return pbt.Result{Discard: true}, nil
	}
	if err := sb.Sync(w); err != nil {
		return pbt.Result{Discard: true}, nil
	}
	if c.Link > 0 {
		// one source file becomes a symbolic link to a hidden file next to it (hidden files are not matched by globs):
		// the input is still the link's path, for owners as for the build
		var all []string
		for f := range w.Files {
			all = append(all, f)
		}
		sort.Strings(all)
		if len(all) > 0 {
			f := all[(c.Link-1)%len(all)]
			full := filepath.Join(sb.WS, f)
			real := filepath.Join(filepath.Dir(full), ".real-"+filepath.Base(full)+".target")
			if err := os.Rename(full, real); err == nil {
				_ = os.Symlink(filepath.Base(real), full)
				res.Classes = append(res.Classes, "symlinked-input")
			}
		}
	}
	query := func(cwd string, args ...string) ([]string, error) {
		_ = os.MkdirAll(filepath.Join(sb.WS, cwd), 0o755)
		r := sb.Grog(cwd, cap, args...)
		if r.Exit != 0 || r.TimedOut {
			return nil, pbt.Fail("query-command-failed", "grog %v (cwd %q) exited %d\n%s", args, cwd, r.Exit, r.Out)
		}
		var ls []string
		for _, l := range lines(r.Out) {
			if strings.HasPrefix(l, "//") {
				ls = append(ls, l)
			} else if !strings.HasPrefix(l, "WARN") && !strings.HasPrefix(l, "INFO") {
				return nil, pbt.Fail("query-output-unparsable", "grog %v printed %q", args, l)
			}
		}
		return ls, nil
	}
	expectList := func(what string, got []string, want map[string]bool) error {
		w := sortedSet(want)
		if fmt.Sprint(got) != fmt.Sprint(w) {
			kind := "wrong-set"
			seen := map[string]bool{}
			for _, l := range got {
				if seen[l] {
					kind = "duplicate-label"
				}
				seen[l] = true
			}
			return pbt.Fail(strings.Fields(what)[0]+":"+kind, "%s\n got  %v\n want %v", what, got, w)
		}
		return nil
	}
	// ---- deps / rdeps: the full matrix, each label once, reference sets, mutual inverse
	depsOut := map[string]map[string]bool{}
	rdepsOut := map[string]map[string]bool{}
	hasDiamond := false
	for _, transitive := range []bool{false, true} {
		for _, n := range g.nodes {
			for _, dir := range []string{"deps", "rdeps"} {
				args := []string{dir}
				if transitive {
					args = append(args, "-t")
				}
				args = append(args, n)
				got, err := query("", args...)
				if err != nil {
					return res, err
				}
				edges := g.deps
				if dir == "rdeps" {
					edges = g.rdeps
				}
				want := map[string]bool{}
				if transitive {
					want = g.closure(n, edges)
					// a diamond: some node reachable over two different first steps
					count := map[string]int{}
					for _, first := range edges[n] {
						sub := g.closure(first, edges)
						sub[first] = true
						for k := range sub {
							count[k]++
							if count[k] > 1 {
								hasDiamond = true
							}
						}
					}
				} else {
					for _, d := range edges[n] {
						want[d] = true
					}
				}
				if err := expectList(fmt.Sprintf("%s %v", dir, args[1:]), got, want); err != nil {
					return res, err
				}
				if transitive {
					set := map[string]bool{}
					for _, l := range got {
						set[l] = true
					}
					if dir == "deps" {
						depsOut[n] = set
					} else {
						rdepsOut[n] = set
					}
				}
			}
		}
	}
	for _, x := range g.nodes {
		for _, y := range g.nodes {
			if depsOut[x][y] != rdepsOut[y][x] {
				return res, pbt.Fail("deps-rdeps-not-inverse", "%s in deps -t %s: %v, but %s in rdeps -t %s: %v", y, x, depsOut[x][y], x, y, rdepsOut[y][x])
			}
		}
	}
	// ---- generated queries
	for _, q := range c.Queries {
		switch q.Kind {
		case "deps", "rdeps":
			n := g.nodes[abs(len(q.Args))%len(g.nodes)]
			if len(q.Args) > 0 {
				n = g.nodes[abs(int(q.Args[0][0]))%len(g.nodes)]
			}
			edges := g.deps
			if q.Kind == "rdeps" {
				edges = g.rdeps
			}
			args := []string{q.Kind, "--target-type=" + q.TargetType}
			want := map[string]bool{}
			if q.Absolute { // reused as "transitive"
				args = append(args, "-t")
				for k := range g.closure(n, edges) {
					want[k] = g.typeOK(k, q.TargetType)
				}
			} else {
				for _, d := range edges[n] {
					want[d] = g.typeOK(d, q.TargetType)
				}
			}
			got, err := query("", append(args, n)...)
			if err != nil {
				return res, err
			}
			if err := expectList(fmt.Sprintf("%s %v", q.Kind, append(args[1:], n)), got, want); err != nil {
				return res, err
			}
		case "owners":
			f := q.Args[0] // workspace-relative file
			want := map[string]bool{}
			for i := range w.Targets {
				t := &w.Targets[i]
				for _, rel := range w.ResolvedInputs(t) {
					if path.Join(t.Pkg, rel) == f {
						want[t.Label()] = true
					}
				}
				// explicitly declared but absent files are still inputs of the target
				for _, in := range t.Inputs {
					if !strings.ContainsAny(in, "*?[") && path.Join(t.Pkg, in) == f {
						want[t.Label()] = true
					}
				}
			}
			arg := f
			if q.Absolute {
				arg = filepath.Join(sb.WS, f)
			} else if rel, err := filepath.Rel(filepath.Join("/", q.Cwd), filepath.Join("/", f)); err == nil {
				arg = rel
			}
			got, err := query(q.Cwd, "owners", arg)
			if err != nil {
				return res, err
			}
			if err := expectList(fmt.Sprintf("owners %s (cwd %q, file %s)", arg, q.Cwd, f), got, want); err != nil {
				return res, err
			}
		case "list":
			want := map[string]bool{}
			var pats []refmodel.RefPattern
			for _, p := range q.Args {
				rp, ok := refmodel.RefParsePattern(q.Cwd, p)
				if !ok {
					return pbt.Result{Discard: true}, nil
				}
				pats = append(pats, rp)
			}
			if len(q.Args) == 0 {
				pats = []refmodel.RefPattern{{Pkg: q.Cwd}}
			}
			for _, n := range g.nodes {
				for _, p := range pats {
					if p.Matches(wsgen.TL(n)) && g.typeOK(n, q.TargetType) {
						want[n] = true
					}
				}
			}
			args := append([]string{"list", "--target-type=" + q.TargetType}, q.Args...)
			got, err := query(q.Cwd, args...)
			if err != nil {
				return res, err
			}
			if err := expectList(fmt.Sprintf("list %v (cwd %q)", args[1:], q.Cwd), got, want); err != nil {
				return res, err
			}
		}
	}
	// ---- (b) after editing f, a build re-executes only owners(f) and their transitive rdeps
	var files []string
	for f := range w.Files {
		files = append(files, f)
	}
	sort.Strings(files)
	nonTest := 0
	for _, n := range g.nodes {
		if !g.alias[n] && !g.isTest[n] {
			nonTest++
		}
	}
	if len(files) > 0 && nonTest > 0 {
		r := sb.Build(histeng.BuildOpts{Patterns: []string{"//..."}}, 120*time.Second)
		if r.Exit != 0 {
			return res, pbt.Fail("initial-build-failed", "%s", r.Out)
		}
		f := files[abs(c.EditFile)%len(files)]
		w.Files[f] += "-edited"
		if err := sb.Sync(w); err != nil {
			return pbt.Result{Discard: true}, nil
		}
		owners, err := query("", "owners", f)
		if err != nil {
			return res, err
		}
		allowed := map[string]bool{}
		for _, o := range owners {
			allowed[o] = true
			rd, err := query("", "rdeps", "-t", o)
			if err != nil {
				return res, err
			}
			for _, x := range rd {
				allowed[x] = true
			}
		}
		r = sb.Build(histeng.BuildOpts{Patterns: []string{"//..."}}, 120*time.Second)
		if r.Exit != 0 {
			return res, pbt.Fail("rebuild-failed", "%s", r.Out)
		}
		for l := range r.Started {
			if !allowed[l] {
				return res, pbt.Fail("rebuild-outside-owners-and-rdeps", "after editing %s the build executed %s, which is not in owners(f)=%v plus their transitive rdeps %v", f, l, owners, sortedSet(allowed))
			}
		}
		if len(r.Started) > 0 {
			res.Classes = append(res.Classes, "edit-caused-rebuild")
		}
	}
	res.NonTrivial = hasDiamond || len(w.Aliases) > 0
	if hasDiamond {
		res.Classes = append(res.Classes, "diamond")
	}
	return res, nil
}

func abs(i int) int {
	if i < 0 {
		return -i
	}
	return i
}

func gen(t *rapid.T) Case {
	w := histeng.GenWS(t, histeng.Profile{MaxTargets: 6, DirOutputs: true, BinOutputs: true})
	c := Case{WS: w, EditFile: rapid.IntRange(0, 20).Draw(t, "editfile")}
	if rapid.IntRange(0, 2).Draw(t, "symlink") == 0 {
		c.Link = 1 + rapid.IntRange(0, 20).Draw(t, "linkfile")
	}
	for i := rapid.IntRange(0, 2).Draw(t, "nrenames"); i > 0; i-- {
		c.Renames = append(c.Renames, rapid.IntRange(0, 5).Draw(t, "rename"))
	}
	var files []string
	for f := range w.Files {
		files = append(files, f)
	}
	sort.Strings(files)
	files = append(files, "not-an-input.md", "a/src/missing.txt", "ab/src/missing.txt")
	cwds := []string{"", "a", "a/b", "ab", "c/d", "c"}
	for i := rapid.IntRange(4, 10).Draw(t, "nqueries"); i > 0; i-- {
		switch rapid.IntRange(0, 3).Draw(t, "qkind") {
		case 0:
			c.Queries = append(c.Queries, Query{Kind: rapid.SampledFrom([]string{"deps", "rdeps"}).Draw(t, "dir"), Args: []string{string(rune('a' + rapid.IntRange(0, 20).Draw(t, "node")))},
				TargetType: rapid.SampledFrom([]string{"all", "test", "no_test", "bin_output"}).Draw(t, "type"), Absolute: rapid.Bool().Draw(t, "transitive")})
		case 1, 2:
			c.Queries = append(c.Queries, Query{Kind: "owners", Cwd: rapid.SampledFrom(cwds).Draw(t, "cwd"), Args: []string{rapid.SampledFrom(files).Draw(t, "file")}, Absolute: rapid.IntRange(0, 2).Draw(t, "absolute") == 0})
		default:
			q := Query{Kind: "list", Cwd: rapid.SampledFrom(cwds).Draw(t, "cwd"), TargetType: rapid.SampledFrom([]string{"all", "test", "no_test", "bin_output"}).Draw(t, "type")}
			for k := rapid.IntRange(0, 2).Draw(t, "npat"); k > 0; k-- {
				q.Args = append(q.Args, rapid.SampledFrom([]string{"//...", "//a/...", "//a:all", "//a/b:...", ":all", ":t0", "//ab/...", "//c/...", "//:all", "//a/...:t1", "//c/d"}).Draw(t, "pat"))
			}
			c.Queries = append(c.Queries, q)
		}
	}
	return c
}

func TestQueries(t *testing.T) {
	if os.Getenv("GROG_BIN") == "" {
		t.Skip("GROG_BIN not set")
	}
	pbt.Main(t, pbt.Spec[Case]{ID: "C20", Gen: gen, Run: run})
}
