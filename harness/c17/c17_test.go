// C17 — labels and patterns follow the documented algebra.
//
// Domain: strings (as label and as pattern) with a current package. Oracle:
//  1. never panics;
//  2. for strings inside the grammar documented in reference/labels.md the parse
//     result / match set equals a reference written from that page;
//  3. for every string that parses: parse(print(x)) == x for labels, and the
//     set of universe labels matched is preserved by print -> re-parse.
package c17

import (
	"encoding/json"
	"os"
	"strconv"
	"strings"
	"testing"

	"grog/internal/label"
	"grog/verif/lib/pbt"
	"grog/verif/lib/refmodel"

	"pgregory.net/rapid"
)

type Case struct {
	Cur string `json:"cur"`
	S   string `json:"s"`
}

var universe = func() []label.TargetLabel {
	var u []label.TargetLabel
	for _, p := range []string{"", "a", "a/b", "ab", "a/bb", "b", "a/b/a", "b/a", "aa", "a.b", "ab/a", "a/bb/a", "aa/b/a", ".a", "a./b"} {
		for _, n := range []string{"a", "b", "ab", "all", "bb", "a.b", "test"} {
			u = append(u, label.TargetLabel{Package: p, Name: n})
		}
	}
	return u
}()

func matchSet(p label.TargetPattern) string {
	var b strings.Builder
	for _, l := range universe {
		if p.Matches(l) {
			b.WriteByte('1')
		} else {
			b.WriteByte('0')
		}
	}
	return b.String()
}

func run(c Case) (pbt.Result, error) {
	res := pbt.Result{}
	// ---- as a label ----
	l, lerr := label.ParseTargetLabel(c.Cur, c.S)
	ref, inGrammar := refmodel.RefLabel(c.Cur, c.S)
	if inGrammar {
		res.Classes = append(res.Classes, "label-in-grammar")
		if lerr != nil {
			return res, pbt.Fail("label-rejects-documented", "label %q (cur %q) is in the documented grammar but was rejected: %v", c.S, c.Cur, lerr)
		}
		if l != ref {
			return res, pbt.Fail("label-parse-differs", "label %q (cur %q): got %#v want %#v", c.S, c.Cur, l, ref)
		}
	}
	if lerr == nil {
		printed := l.String()
		for _, cur2 := range []string{"", "a", "zz"} {
			l2, err := label.ParseTargetLabel(cur2, printed)
			if err != nil || l2 != l {
				return res, pbt.Fail("label-roundtrip", "label %q (cur %q) -> %#v prints %q, re-parsed (cur %q) as %#v err=%v", c.S, c.Cur, l, printed, cur2, l2, err)
			}
		}
		if !(strings.HasPrefix(c.S, "//") && strings.Contains(c.S, ":")) {
			res.NonTrivial = true
			res.Classes = append(res.Classes, "label-shorthand-or-relative")
		}
	}
	// ---- as a pattern ----
	p, perr := label.ParseTargetPattern(c.Cur, c.S)
	rp, pInGrammar := refmodel.RefParsePattern(c.Cur, c.S)
	if pInGrammar {
		res.Classes = append(res.Classes, "pattern-in-grammar")
		if perr != nil {
			return res, pbt.Fail("pattern-rejects-documented", "pattern %q (cur %q) is in the documented grammar but was rejected: %v", c.S, c.Cur, perr)
		}
		for _, ul := range universe {
			if got, want := p.Matches(ul), rp.Matches(ul); got != want {
				return res, pbt.Fail("pattern-match-differs", "pattern %q (cur %q) on %s: got %v want %v", c.S, c.Cur, ul, got, want)
			}
		}
	}
	if perr == nil {
		printed := p.String()
		before := matchSet(p)
		for _, cur2 := range []string{"", "a", "zz"} {
			p2, err := label.ParseTargetPattern(cur2, printed)
			if err != nil {
				return res, pbt.Fail("pattern-print-unparsable", "pattern %q (cur %q) prints %q which does not parse: %v", c.S, c.Cur, printed, err)
			}
			if after := matchSet(p2); after != before {
				return res, pbt.Fail("pattern-roundtrip", "pattern %q (cur %q) prints %q; match set over the universe changes from %s to %s", c.S, c.Cur, printed, before, after)
			}
		}
		plain := strings.HasPrefix(c.S, "//") && strings.Contains(c.S, ":") && !strings.Contains(c.S, "...") && !strings.HasSuffix(c.S, ":all")
		if !plain {
			res.NonTrivial = true
			if p.Recursive() {
				res.Classes = append(res.Classes, "pattern-recursive")
			} else {
				res.Classes = append(res.Classes, "pattern-other")
			}
		}
	}
	if lerr != nil && perr != nil {
		res.Classes = append(res.Classes, "rejected-both")
	}
	return res, nil
}

var spec = pbt.Spec[Case]{ID: "C17", Run: run}

var alphabet = []byte{'a', 'b', '/', ':', '.'}

func envInt(k string, d int) int {
	if v, err := strconv.Atoi(os.Getenv(k)); err == nil {
		return v
	}
	return d
}

// TestEnum: every string up to VERIF_MAXLEN over {a,b,/,:,.}, three current packages.
func TestEnum(t *testing.T) {
	maxLen := envInt("VERIF_MAXLEN", 6)
	shard, shards := envInt("VERIF_SHARD", 0), envInt("VERIF_SHARDS", 1)
	pbt.Enumerate(t, spec, func(yield func(Case) bool) {
		idx := 0
		for n := 0; n <= maxLen; n++ {
			buf := make([]byte, n)
			digits := make([]int, n)
			for {
				for i, d := range digits {
					buf[i] = alphabet[d]
				}
				if idx%shards == shard {
					for _, cur := range []string{"", "a", "a/b", ".a"} {
						if !yield(Case{Cur: cur, S: string(buf)}) {
							return
						}
					}
				}
				idx++
				i := n - 1
				for ; i >= 0; i-- {
					digits[i]++
					if digits[i] < len(alphabet) {
						break
					}
					digits[i] = 0
				}
				if i < 0 {
					break
				}
			}
		}
	})
}

// TestRandom: longer strings assembled from grammar pieces over a wider alphabet.
func TestRandom(t *testing.T) {
	pieces := []string{"//", "/", ":", "...", ".", "..", "a", "b", "ab", "all", "test", "x_test", "-", "_", "A", "0", " ", "é", "a/b", "//a", ":a", "/...", ":all", ":..."}
	s := spec
	s.Gen = func(t *rapid.T) Case {
		curs := []string{"", "a", "a/b", "ab", "a.b", ".a", ".ci/tools", "..a", "./a", "a/.b"}
		if rapid.IntRange(0, 2).Draw(t, "structured") == 0 {
			// well-formed labels and patterns assembled from the grammar, with target names that coincide with package
			// segments (//a/b:b, //a/...:a): the shorthand and the recursive forms meet there
			segs := []string{"a", "b", "ab"}
			var pkg []string
			for i := rapid.IntRange(0, 3).Draw(t, "nsegs"); i > 0; i-- {
				pkg = append(pkg, rapid.SampledFrom(segs).Draw(t, "seg"))
			}
			name := rapid.SampledFrom([]string{"a", "b", "ab", "all", "x_test"}).Draw(t, "name")
			if len(pkg) > 0 && rapid.Bool().Draw(t, "name-is-last-segment") {
				name = pkg[len(pkg)-1]
			}
			path := strings.Join(pkg, "/")
			form := rapid.SampledFrom([]string{"//P:N", "//P/...", "//P/...:N", "//P:all", "//P", ":N", "P:N", "//...:N", "//..."}).Draw(t, "form")
			if path == "" {
				form = strings.ReplaceAll(form, "P/", "")
			}
			str := strings.NewReplacer("P", path, "N", name).Replace(form)
			return Case{Cur: rapid.SampledFrom(curs).Draw(t, "cur"), S: str}
		}
		n := rapid.IntRange(0, 9).Draw(t, "n")
		var b strings.Builder
		if rapid.IntRange(0, 3).Draw(t, "abs") > 0 {
			b.WriteString("//")
		}
		for i := 0; i < n; i++ {
			b.WriteString(rapid.SampledFrom(pieces).Draw(t, "piece"))
		}
		return Case{Cur: rapid.SampledFrom([]string{"", "a", "a/b", "ab", "a.b", ".a", ".ci/tools", "..a", "./a", "a/.b"}).Draw(t, "cur"), S: b.String()}
	}
	pbt.Main(t, s)
}

// FuzzC17 is the native-fuzz entry (thorough tier); same oracle.
func FuzzC17(f *testing.F) {
	for _, s := range []string{"//a/b:c", "//a/...", "//...", ":x", "//a//:a", "//a:all", "//a/...:b", "a:b"} {
		f.Add("a", s)
	}
	f.Fuzz(func(t *testing.T, cur, s string) {
		if !refmodel.ValidPkg(cur) {
			return // current packages are real, clean, workspace-relative directory paths
		}
		for _, seg := range strings.Split(cur, "/") {
			if seg == "." || seg == ".." {
				return // "." is how callers spell the root package; it never appears as a path segment
			}
		}
		if p := os.Getenv("VERIF_EXPORT"); p != "" {
			b, _ := json.Marshal(map[string]any{"part": "random", "property": "C17", "signature": "fuzz-crasher", "case": Case{Cur: cur, S: s}})
			_ = os.WriteFile(p, b, 0o644)
		}
		if _, err := run(Case{Cur: cur, S: s}); err != nil {
			t.Fatalf("%v", err)
		}
	})
}
