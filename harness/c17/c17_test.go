// C17 — labels and patterns follow the documented algebra.
//
// Domain: strings (as label and as pattern) with a current package. Oracle:
//  1. never panics;
//  2. for strings inside the grammar documented in reference/labels.md the parse
//     result / match set equals a reference written from that page;
//  3. for every string that parses: parse(print(x)) == x for labels, and the
//     set of universe labels matched is preserved by print -> re-parse.
package c17

import (
	"os"
	"strconv"
	"strings"
	"testing"

	"grog/internal/label"
	"grog/verif/lib/pbt"

	"pgregory.net/rapid"
)

type Case struct {
	Cur string `json:"cur"`
	S   string `json:"s"`
}

var universe = func() []label.TargetLabel {
	var u []label.TargetLabel
	for _, p := range []string{"", "a", "a/b", "ab", "a/bb", "b", "a/b/a", "b/a", "aa", "a.b"} {
		for _, n := range []string{"a", "b", "ab", "all", "bb", "a.b", "test"} {
			u = append(u, label.TargetLabel{Package: p, Name: n})
		}
	}
	return u
}()

func validName(n string) bool {
	if n == "" || n == "..." {
		return false
	}
	for _, c := range n {
		switch {
		case c >= 'a' && c <= 'z', c >= 'A' && c <= 'Z', c >= '0' && c <= '9', c == '_', c == '-', c == '.':
		default:
			return false
		}
	}
	return true
}

// validPkg: documented package paths: "" or seg(/seg)* with non-empty segments
// made of name characters, none of them containing "..." (that is the wildcard).
func validPkg(p string) bool {
	if p == "" {
		return true
	}
	for _, seg := range strings.Split(p, "/") {
		if !validName(seg) || strings.Contains(seg, "...") {
			return false
		}
	}
	return true
}

// refLabel parses a label of the documented grammar. ok=false: outside grammar.
func refLabel(cur, s string) (label.TargetLabel, bool) {
	if strings.HasPrefix(s, ":") {
		n := s[1:]
		if !validName(n) {
			return label.TargetLabel{}, false
		}
		return label.TargetLabel{Package: cur, Name: n}, true
	}
	if !strings.HasPrefix(s, "//") {
		return label.TargetLabel{}, false
	}
	body := s[2:]
	if i := strings.Index(body, ":"); i >= 0 {
		p, n := body[:i], body[i+1:]
		if !validPkg(p) || !validName(n) {
			return label.TargetLabel{}, false
		}
		return label.TargetLabel{Package: p, Name: n}, true
	}
	if body == "" || !validPkg(body) {
		return label.TargetLabel{}, false
	}
	segs := strings.Split(body, "/")
	return label.TargetLabel{Package: body, Name: segs[len(segs)-1]}, true
}

type refPattern struct {
	pkg       string
	recursive bool
	name      string // "" = any
}

func (p refPattern) matches(l label.TargetLabel) bool {
	if p.recursive {
		if p.pkg != "" && l.Package != p.pkg && !strings.HasPrefix(l.Package, p.pkg+"/") {
			return false
		}
	} else if l.Package != p.pkg {
		return false
	}
	return p.name == "" || l.Name == p.name
}

// refParsePattern: documented pattern grammar.
func refParsePattern(cur, s string) (refPattern, bool) {
	nameOf := func(n string) (string, bool) {
		if n == "all" || n == "..." {
			return "", true
		}
		return n, validName(n)
	}
	if strings.HasPrefix(s, ":") {
		n, ok := nameOf(s[1:])
		return refPattern{pkg: cur, name: n}, ok
	}
	if !strings.HasPrefix(s, "//") {
		return refPattern{}, false
	}
	body := s[2:]
	pkgPart, namePart, hasName := body, "", false
	if i := strings.Index(body, ":"); i >= 0 {
		pkgPart, namePart, hasName = body[:i], body[i+1:], true
	}
	rp := refPattern{}
	if pkgPart == "..." {
		rp.recursive, rp.pkg = true, ""
	} else if strings.HasSuffix(pkgPart, "/...") {
		rp.recursive, rp.pkg = true, strings.TrimSuffix(pkgPart, "/...")
		if rp.pkg == "" || !validPkg(rp.pkg) {
			return refPattern{}, false
		}
	} else {
		rp.pkg = pkgPart
		if !validPkg(rp.pkg) {
			return refPattern{}, false
		}
	}
	if hasName {
		n, ok := nameOf(namePart)
		if !ok {
			return refPattern{}, false
		}
		rp.name = n
		return rp, true
	}
	if rp.recursive {
		return rp, true
	}
	// shorthand //a/b == //a/b:b
	if rp.pkg == "" {
		return refPattern{}, false
	}
	segs := strings.Split(rp.pkg, "/")
	rp.name = segs[len(segs)-1]
	if rp.name == "all" { // "//all" would read as //all:all = every target of package all; leave to the round-trip oracle
		return refPattern{}, false
	}
	return rp, true
}

func matchSet(p label.TargetPattern) string {
	var b strings.Builder
	for _, l := range universe {
		if p.Matches(l) {
			b.WriteByte('1')
		} else {
			b.WriteByte('0')
		}
	}
	return b.String()
}

func run(c Case) (pbt.Result, error) {
	res := pbt.Result{}
	// ---- as a label ----
	l, lerr := label.ParseTargetLabel(c.Cur, c.S)
	ref, inGrammar := refLabel(c.Cur, c.S)
	if inGrammar {
		res.Classes = append(res.Classes, "label-in-grammar")
		if lerr != nil {
			return res, pbt.Fail("label-rejects-documented", "label %q (cur %q) is in the documented grammar but was rejected: %v", c.S, c.Cur, lerr)
		}
		if l != ref {
			return res, pbt.Fail("label-parse-differs", "label %q (cur %q): got %#v want %#v", c.S, c.Cur, l, ref)
		}
	}
	if lerr == nil {
		printed := l.String()
		for _, cur2 := range []string{"", "a", "zz"} {
			l2, err := label.ParseTargetLabel(cur2, printed)
			if err != nil || l2 != l {
				return res, pbt.Fail("label-roundtrip", "label %q (cur %q) -> %#v prints %q, re-parsed (cur %q) as %#v err=%v", c.S, c.Cur, l, printed, cur2, l2, err)
			}
		}
		if !(strings.HasPrefix(c.S, "//") && strings.Contains(c.S, ":")) {
			res.NonTrivial = true
			res.Classes = append(res.Classes, "label-shorthand-or-relative")
		}
	}
	// ---- as a pattern ----
	p, perr := label.ParseTargetPattern(c.Cur, c.S)
	rp, pInGrammar := refParsePattern(c.Cur, c.S)
	if pInGrammar {
		res.Classes = append(res.Classes, "pattern-in-grammar")
		if perr != nil {
			return res, pbt.Fail("pattern-rejects-documented", "pattern %q (cur %q) is in the documented grammar but was rejected: %v", c.S, c.Cur, perr)
		}
		for _, ul := range universe {
			if got, want := p.Matches(ul), rp.matches(ul); got != want {
				return res, pbt.Fail("pattern-match-differs", "pattern %q (cur %q) on %s: got %v want %v", c.S, c.Cur, ul, got, want)
			}
		}
	}
	if perr == nil {
		printed := p.String()
		before := matchSet(p)
		for _, cur2 := range []string{"", "a", "zz"} {
			p2, err := label.ParseTargetPattern(cur2, printed)
			if err != nil {
				return res, pbt.Fail("pattern-print-unparsable", "pattern %q (cur %q) prints %q which does not parse: %v", c.S, c.Cur, printed, err)
			}
			if after := matchSet(p2); after != before {
				return res, pbt.Fail("pattern-roundtrip", "pattern %q (cur %q) prints %q; match set over the universe changes from %s to %s", c.S, c.Cur, printed, before, after)
			}
		}
		plain := strings.HasPrefix(c.S, "//") && strings.Contains(c.S, ":") && !strings.Contains(c.S, "...") && !strings.HasSuffix(c.S, ":all")
		if !plain {
			res.NonTrivial = true
			if p.Recursive() {
				res.Classes = append(res.Classes, "pattern-recursive")
			} else {
				res.Classes = append(res.Classes, "pattern-other")
			}
		}
	}
	if lerr != nil && perr != nil {
		res.Classes = append(res.Classes, "rejected-both")
	}
	return res, nil
}

var spec = pbt.Spec[Case]{ID: "C17", Run: run}

var alphabet = []byte{'a', 'b', '/', ':', '.'}

func envInt(k string, d int) int {
	if v, err := strconv.Atoi(os.Getenv(k)); err == nil {
		return v
	}
	return d
}

// TestEnum: every string up to VERIF_MAXLEN over {a,b,/,:,.}, three current packages.
func TestEnum(t *testing.T) {
	maxLen := envInt("VERIF_MAXLEN", 6)
	shard, shards := envInt("VERIF_SHARD", 0), envInt("VERIF_SHARDS", 1)
	pbt.Enumerate(t, spec, func(yield func(Case) bool) {
		idx := 0
		for n := 0; n <= maxLen; n++ {
			buf := make([]byte, n)
			digits := make([]int, n)
			for {
				for i, d := range digits {
					buf[i] = alphabet[d]
				}
				if idx%shards == shard {
					for _, cur := range []string{"", "a", "a/b"} {
						if !yield(Case{Cur: cur, S: string(buf)}) {
							return
						}
					}
				}
				idx++
				i := n - 1
				for ; i >= 0; i-- {
					digits[i]++
					if digits[i] < len(alphabet) {
						break
					}
					digits[i] = 0
				}
				if i < 0 {
					break
				}
			}
		}
	})
}

// TestRandom: longer strings assembled from grammar pieces over a wider alphabet.
func TestRandom(t *testing.T) {
	pieces := []string{"//", "/", ":", "...", ".", "..", "a", "b", "ab", "all", "test", "x_test", "-", "_", "A", "0", " ", "é", "a/b", "//a", ":a", "/...", ":all", ":..."}
	s := spec
	s.Gen = func(t *rapid.T) Case {
		n := rapid.IntRange(0, 9).Draw(t, "n")
		var b strings.Builder
		if rapid.IntRange(0, 3).Draw(t, "abs") > 0 {
			b.WriteString("//")
		}
		for i := 0; i < n; i++ {
			b.WriteString(rapid.SampledFrom(pieces).Draw(t, "piece"))
		}
		return Case{Cur: rapid.SampledFrom([]string{"", "a", "a/b", "ab", "a.b"}).Draw(t, "cur"), S: b.String()}
	}
	pbt.Main(t, s)
}

// FuzzC17 is the native-fuzz entry (thorough tier); same oracle.
func FuzzC17(f *testing.F) {
	for _, s := range []string{"//a/b:c", "//a/...", "//...", ":x", "//a//:a", "//a:all", "//a/...:b", "a:b"} {
		f.Add("a", s)
	}
	f.Fuzz(func(t *testing.T, cur, s string) {
		if strings.ContainsAny(cur, ":") || strings.HasSuffix(cur, "/") || strings.Contains(cur, "...") {
			return // current packages are real directory paths
		}
		if _, err := run(Case{Cur: cur, S: s}); err != nil {
			t.Fatalf("%v", err)
		}
	})
}
