package c09

// Part "loaded": the key of a target loaded from a BUILD file does not depend on
// declaration order of inputs / exclude patterns / outputs / fingerprint entries
// (including overlapping glob patterns that match the same file twice), on the
// order in which files were created, on the BUILD file format, on the checkout
// location or on the worker count.

import (
	"context"
	"encoding/json"
	"fmt"
	"os"
	"path/filepath"
	"strings"
	"testing"

	"grog/internal/config"
	"grog/internal/hashing"
	"grog/internal/loading"
	"grog/internal/model"
	"grog/verif/lib/pbt"

	"pgregory.net/rapid"
)

type Variant struct {
	Format    string   `json:"format"` // json | yaml
	Inputs    []string `json:"inputs"`
	Excludes  []string `json:"excludes"`
	Outputs   []string `json:"outputs"`
	FpOrder   []string `json:"fingerprint_order"`
	FileOrder []string `json:"file_creation_order"`
	Root      string   `json:"root"`
	Workers   int      `json:"workers"`
}

type LoadedCase struct {
	Pkg         string            `json:"pkg"`
	Files       map[string]string `json:"files"`
	Fingerprint map[string]string `json:"fingerprint"`
	Command     string            `json:"command"`
	A           Variant           `json:"a"`
	B           Variant           `json:"b"`
}

func jsonStr(s string) string { b, _ := json.Marshal(s); return string(b) }
func jsonList(xs []string) string {
	parts := make([]string, len(xs))
	for i, x := range xs {
		parts[i] = jsonStr(x)
	}
	return "[" + strings.Join(parts, ", ") + "]"
}

func renderBuild(c LoadedCase, v Variant) string {
	var fp []string
	for _, k := range v.FpOrder {
		fp = append(fp, jsonStr(k)+": "+jsonStr(c.Fingerprint[k]))
	}
	return fmt.Sprintf(`{"targets": [{"name": "t", "command": %s, "inputs": %s, "exclude_inputs": %s, "outputs": %s, "fingerprint": {%s}}]}`,
		jsonStr(c.Command), jsonList(v.Inputs), jsonList(v.Excludes), jsonList(v.Outputs), strings.Join(fp, ", "))
}

func loadedKey(c LoadedCase, v Variant, slot string) (string, []string, error) {
	base := filepath.Join(tmpRoot, "loaded-"+slot)
	if err := os.RemoveAll(base); err != nil {
		return "", nil, err
	}
	root := filepath.Join(base, v.Root)
	pkgDir := filepath.Join(root, c.Pkg)
	if err := os.MkdirAll(pkgDir, 0o755); err != nil {
		return "", nil, err
	}
	for _, f := range v.FileOrder {
		full := filepath.Join(pkgDir, f)
		if err := os.MkdirAll(filepath.Dir(full), 0o755); err != nil {
			return "", nil, err
		}
		if err := os.WriteFile(full, []byte(c.Files[f]), 0o644); err != nil {
			return "", nil, err
		}
	}
	name := "BUILD.json"
	if v.Format == "yaml" {
		name = "BUILD.yaml" // JSON is a subset of YAML (flow style)
	}
	if err := os.WriteFile(filepath.Join(pkgDir, name), []byte(renderBuild(c, v)), 0o644); err != nil {
		return "", nil, err
	}
	if err := os.WriteFile(filepath.Join(root, "grog.toml"), nil, 0o644); err != nil {
		return "", nil, err
	}
	config.Global = config.WorkspaceConfig{WorkspaceRoot: root, HashAlgorithm: config.HashAlgorithmSHA256, OS: "linux", Arch: "amd64", NumWorkers: v.Workers}
	pkgs, err := loading.LoadPackages(context.Background(), root)
	if err != nil {
		return "", nil, fmt.Errorf("load: %w", err)
	}
	var target *model.Target
	for _, p := range pkgs {
		for _, t := range p.Targets {
			if t.Label.Name == "t" {
				target = t
			}
		}
	}
	if target == nil {
		return "", nil, fmt.Errorf("target not loaded")
	}
	resolved := append([]string{}, target.Inputs...)
	k, err := hashing.GetTargetChangeHash(*target, nil)
	return k, resolved, err
}

func TestLoaded(t *testing.T) {
	filePool := []string{"a.txt", "b.txt", "c.md", "src/a.txt", "src/b.txt", "src/deep/c.txt", "z.txt"}
	patPool := []string{"a.txt", "b.txt", "*.txt", "src/*.txt", "src/**/*.txt", "**/*.txt", "c.md", "*.md", "src/a.txt", "missing.txt"}
	exPool := []string{"b.txt", "src/b.txt", "**/c.txt", "*.md"}
	outPool := []string{"o", "out/o2", "dir::d", "dir::dist/d2"}
	pbt.Main(t, pbt.Spec[LoadedCase]{ID: "C09",
		Gen: func(t *rapid.T) LoadedCase {
			c := LoadedCase{Pkg: rapid.SampledFrom([]string{"", "p", "p/q"}).Draw(t, "pkg"), Files: map[string]string{}, Fingerprint: map[string]string{},
				Command: rapid.SampledFrom([]string{"cat *.txt > o", "true", "echo hi"}).Draw(t, "cmd")}
			files := rapid.SliceOfNDistinct(rapid.SampledFrom(filePool), 1, 6, rapid.ID[string]).Draw(t, "files")
			for _, f := range files {
				c.Files[f] = rapid.SampledFrom([]string{"", "x", "xy", "same", "same"}).Draw(t, "content")
			}
			ins := rapid.SliceOfNDistinct(rapid.SampledFrom(patPool), 1, 5, rapid.ID[string]).Draw(t, "inputs")
			exs := rapid.SliceOfNDistinct(rapid.SampledFrom(exPool), 0, 2, rapid.ID[string]).Draw(t, "excludes")
			outs := rapid.SliceOfNDistinct(rapid.SampledFrom(outPool), 0, 3, rapid.ID[string]).Draw(t, "outputs")
			fpk := rapid.SliceOfNDistinct(rapid.SampledFrom([]string{"a", "b", "k", "version"}), 0, 3, rapid.ID[string]).Draw(t, "fpk")
			for _, k := range fpk {
				c.Fingerprint[k] = rapid.SampledFrom([]string{"", "1", "b"}).Draw(t, "fpv")
			}
			mk := func(tag string) Variant {
				return Variant{
					Format:    rapid.SampledFrom([]string{"json", "yaml"}).Draw(t, tag+"fmt"),
					Inputs:    permute(t, ins, tag+"pi"),
					Excludes:  permute(t, exs, tag+"pe"),
					Outputs:   permute(t, outs, tag+"po"),
					FpOrder:   permute(t, fpk, tag+"pf"),
					FileOrder: permute(t, files, tag+"pfile"),
					Root:      rapid.SampledFrom([]string{"ws", "some/where/else"}).Draw(t, tag+"root"),
					Workers:   rapid.IntRange(1, 8).Draw(t, tag+"w"),
				}
			}
			c.A, c.B = mk("a"), mk("b")
			return c
		},
		Run: func(c LoadedCase) (pbt.Result, error) {
			res := pbt.Result{}
			ka, ra, err := loadedKey(c, c.A, "A")
			if err != nil {
				return res, pbt.Fail("load-error", "variant A: %v", err)
			}
			kb, rb, err := loadedKey(c, c.B, "B")
			if err != nil {
				return res, pbt.Fail("load-error", "variant B: %v", err)
			}
			dup := false
			seen := map[string]bool{}
			for _, r := range ra {
				if seen[r] {
					dup = true
				}
				seen[r] = true
			}
			if dup {
				res.Classes = append(res.Classes, "overlapping-patterns")
			}
			if c.A.Format != c.B.Format {
				res.Classes = append(res.Classes, "cross-format")
			}
			res.NonTrivial = fmt.Sprint(c.A.Inputs) != fmt.Sprint(c.B.Inputs) || fmt.Sprint(c.A.Outputs) != fmt.Sprint(c.B.Outputs) || c.A.Format != c.B.Format
			if ka != kb {
				return res, pbt.Fail("loaded-key-depends-on-declaration", "same package, variants differ only in declaration/creation order, format (%s/%s), location or workers, but keys differ: %s vs %s\nresolved inputs A=%q B=%q", c.A.Format, c.B.Format, ka, kb, ra, rb)
			}
			return res, nil
		}})
}
