// C09 — cache keys are canonical: equal exactly when the build state is equal.
//
// Domain: pairs of target states (A, B) where B is derived from A by a named
// relation that is either key-preserving (order permutations, checkout
// location, irrelevant files, mtimes, platform under multiplatform-cache) or
// state-changing (single component edits and, for every pair of components
// adjacent in a naive concatenation, a boundary shift that keeps the
// concatenation identical). Oracle: must-equal pairs have equal keys under
// xxh3 and under sha256; must-differ pairs must not have equal keys under BOTH
// algorithms at once (that would be an encoding collision, not a hash accident).
package c09

import (
	"fmt"
	"os"
	"path/filepath"
	"sort"
	"strings"
	"testing"
	"time"

	"grog/internal/analysis"
	"grog/internal/config"
	"grog/internal/hashing"
	"grog/internal/label"
	"grog/internal/model"
	"grog/internal/output"
	"grog/verif/lib/pbt"

	"pgregory.net/rapid"
)

type State struct {
	Pkg         string            `json:"pkg"`
	Name        string            `json:"name"`
	Command     string            `json:"command"`
	Inputs      []string          `json:"inputs"` // declared (resolved) inputs, package relative
	Files       map[string]string `json:"files"`  // present files: path -> content (inputs and bystanders)
	Outputs     []string          `json:"outputs"`
	DepHashes   []string          `json:"dep_hashes"`
	Fingerprint [][2]string       `json:"fingerprint"` // insertion order is part of the case
	OS          string            `json:"os"`
	Arch        string            `json:"arch"`
	Multi       bool              `json:"multiplatform_cache"`
	Root        string            `json:"root"` // checkout location below the temp dir
	Touch       bool              `json:"touch"`
}

type Case struct {
	A        State  `json:"a"`
	B        State  `json:"b"`
	Relation string `json:"relation"` // "equal" | "differ"
	Kind     string `json:"kind"`
}

func (s State) clone() State {
	c := s
	c.Inputs = append([]string{}, s.Inputs...)
	c.Outputs = append([]string{}, s.Outputs...)
	c.DepHashes = append([]string{}, s.DepHashes...)
	c.Fingerprint = append([][2]string{}, s.Fingerprint...)
	c.Files = map[string]string{}
	for k, v := range s.Files {
		c.Files[k] = v
	}
	return c
}

// abstract is the state the property speaks about.
func (s State) abstract() string {
	var b strings.Builder
	fmt.Fprintf(&b, "L%q C%q ", "//"+s.Pkg+":"+s.Name, s.Command)
	ins := append([]string{}, s.Inputs...)
	sort.Strings(ins)
	for _, in := range ins {
		if c, ok := s.Files[in]; ok {
			fmt.Fprintf(&b, "I(%q,%q) ", in, c)
		}
	}
	outs := append([]string{}, s.Outputs...)
	sort.Strings(outs)
	fmt.Fprintf(&b, "O%q ", outs)
	deps := append([]string{}, s.DepHashes...)
	sort.Strings(deps)
	fmt.Fprintf(&b, "D%q ", deps)
	fp := map[string]string{}
	for _, kv := range s.Fingerprint {
		fp[kv[0]] = kv[1]
	}
	keys := make([]string, 0, len(fp))
	for k := range fp {
		keys = append(keys, k)
	}
	sort.Strings(keys)
	for _, k := range keys {
		fmt.Fprintf(&b, "F(%q,%q) ", k, fp[k])
	}
	if !s.Multi {
		fmt.Fprintf(&b, "P%q", s.OS+"/"+s.Arch)
	}
	return b.String()
}

var tmpRoot string
var caseCounter int

func materialise(s State, slot string) (string, error) {
	root := filepath.Join(tmpRoot, slot, s.Root)
	if err := os.RemoveAll(filepath.Join(tmpRoot, slot)); err != nil {
		return "", err
	}
	pkgDir := filepath.Join(root, s.Pkg)
	if err := os.MkdirAll(pkgDir, 0o755); err != nil {
		return "", err
	}
	for p, c := range s.Files {
		full := filepath.Join(pkgDir, p)
		if err := os.MkdirAll(filepath.Dir(full), 0o755); err != nil {
			return "", err
		}
		if err := os.WriteFile(full, []byte(c), 0o644); err != nil {
			return "", err
		}
		if s.Touch {
			past := time.Unix(1000000000, 0)
			_ = os.Chtimes(full, past, past)
		}
	}
	return root, nil
}

func (s State) target() (model.Target, error) {
	outs, err := output.ParseOutputs(s.Outputs)
	if err != nil {
		return model.Target{}, err
	}
	fp := map[string]string{}
	for _, kv := range s.Fingerprint {
		fp[kv[0]] = kv[1]
	}
	if len(fp) == 0 {
		fp = nil
	}
	var tags []string
	if s.Multi {
		tags = []string{model.TagMultiplatformCache}
	}
	return model.Target{
		Label:       label.TargetLabel{Package: s.Pkg, Name: s.Name},
		Command:     s.Command,
		Inputs:      append([]string{}, s.Inputs...),
		Outputs:     outs,
		Fingerprint: fp,
		Tags:        tags,
	}, nil
}

func keys(s State, slot string) (string, string, error) {
	root, err := materialise(s, slot)
	if err != nil {
		return "", "", err
	}
	var out [2]string
	for i, algo := range []string{config.HashAlgorithmXXH3, config.HashAlgorithmSHA256} {
		config.Global = config.WorkspaceConfig{WorkspaceRoot: root, HashAlgorithm: algo, OS: s.OS, Arch: s.Arch, NumWorkers: 1 + i}
		t, err := s.target()
		if err != nil {
			return "", "", err
		}
		k, err := hashing.GetTargetChangeHash(t, append([]string{}, s.DepHashes...))
		if err != nil {
			return "", "", err
		}
		out[i] = k
	}
	return out[0], out[1], nil
}

func run(c Case) (pbt.Result, error) {
	res := pbt.Result{Classes: []string{c.Relation + ":" + c.Kind}}
	absA, absB := c.A.abstract(), c.B.abstract()
	if (c.Relation == "equal") != (absA == absB) {
		// generator produced a pair that does not stand in the relation it names
		return pbt.Result{Discard: true}, nil
	}
	ax, as, err := keys(c.A, "A")
	if err != nil {
		return res, pbt.Fail("hash-error", "state A: %v", err)
	}
	bx, bs, err := keys(c.B, "B")
	if err != nil {
		return res, pbt.Fail("hash-error", "state B: %v", err)
	}
	res.NonTrivial = c.Kind != "identity" && !strings.HasPrefix(c.Kind, "single:")
	if c.Relation == "equal" {
		if ax != bx || as != bs {
			return res, pbt.Fail("unequal-keys-for-equal-state:"+c.Kind, "states equal up to %s but keys differ: xxh3 %s vs %s, sha256 %s vs %s\nA=%s\nB=%s", c.Kind, ax, bx, as, bs, absA, absB)
		}
		return res, nil
	}
	if ax == bx && as == bs {
		return res, pbt.Fail("collision:"+c.Kind, "different states share one key under both xxh3 and sha256 (%s)\nA=%s\nB=%s\nkey=%s", c.Kind, absA, absB, ax)
	}
	if ax == bx || as == bs {
		pbt.Count("single-algorithm-equalities", 1)
	}
	return res, nil
}

// ---------------------------------------------------------------- generator

var fileNames = []string{"a", "b", "ab", "c", "a,b", "b,c", "a b", "src/a", "src/b", "src/a,b", "z.txt", "a=b"}
var contents = rapid.OneOf(rapid.Just(""), rapid.StringMatching(`[xy,=\n]{0,6}`), rapid.Just("x"), rapid.Just("xy"))
var names = []string{"a", "ab", "b", "t", "t1", "a.b", "x_test"}
var pkgs = []string{"", "p", "p/q", "pq"}
var cmds = []string{"", "echo a", "echo ", "cat a b > o", "x", "make"}
var outNames = []string{"o", "o2", "dir::d", "dir::d2", "out/o", "o,o2", "dir::d,e"}
var hexDigits = "0123456789abcdef"

func genHash(t *rapid.T, label string) string {
	n := rapid.SampledFrom([]int{32, 64}).Draw(t, label+"-len")
	b := make([]byte, n)
	c := rapid.SampledFrom([]byte("0a5f")).Draw(t, label+"-c")
	for i := range b {
		b[i] = c
	}
	// vary a few positions
	for i := 0; i < 3; i++ {
		b[rapid.IntRange(0, n-1).Draw(t, label+"-pos")] = hexDigits[rapid.IntRange(0, 15).Draw(t, label+"-d")]
	}
	return string(b)
}

func genState(t *rapid.T) State {
	s := State{
		Pkg:     rapid.SampledFrom(pkgs).Draw(t, "pkg"),
		Name:    rapid.SampledFrom(names).Draw(t, "name"),
		Command: rapid.SampledFrom(cmds).Draw(t, "cmd"),
		OS:      rapid.SampledFrom([]string{"linux", "darwin"}).Draw(t, "os"),
		Arch:    rapid.SampledFrom([]string{"amd64", "arm64"}).Draw(t, "arch"),
		Multi:   rapid.IntRange(0, 4).Draw(t, "multi") == 0,
		Root:    rapid.SampledFrom([]string{"ws", "w/s", "elsewhere/checkout"}).Draw(t, "root"),
		Files:   map[string]string{},
	}
	ins := rapid.SliceOfNDistinct(rapid.SampledFrom(fileNames), 0, 5, rapid.ID[string]).Draw(t, "inputs")
	// "a b"-style names: a file cannot also be a directory prefix of another in this list by construction
	s.Inputs = ins
	for _, in := range ins {
		if rapid.IntRange(0, 5).Draw(t, "present") > 0 {
			s.Files[in] = contents.Draw(t, "content")
		}
	}
	if rapid.IntRange(0, 3).Draw(t, "bystander") == 0 {
		s.Files["unrelated.md"] = "zzz"
	}
	s.Outputs = rapid.SliceOfNDistinct(rapid.SampledFrom(outNames), 0, 3, rapid.ID[string]).Draw(t, "outputs")
	nd := rapid.IntRange(0, 3).Draw(t, "ndeps")
	for i := 0; i < nd; i++ {
		s.DepHashes = append(s.DepHashes, genHash(t, "dep"))
	}
	fpKeys := rapid.SliceOfNDistinct(rapid.SampledFrom([]string{"a", "b", "k", "a=b", "version", "k,l", "platform", "os", "arch", "label", "command", "multiplatform-cache"}), 0, 3, rapid.ID[string]).Draw(t, "fpkeys")
	for _, k := range fpKeys {
		s.Fingerprint = append(s.Fingerprint, [2]string{k, rapid.SampledFrom([]string{"", "1", "b", "b=c", "v,w", "c"}).Draw(t, "fpval")})
	}
	return s
}

func permute[T any](t *rapid.T, xs []T, label string) []T {
	out := append([]T{}, xs...)
	for i := len(out) - 1; i > 0; i-- {
		j := rapid.IntRange(0, i).Draw(t, label)
		out[i], out[j] = out[j], out[i]
	}
	return out
}

func presentSorted(s State) []string {
	var ps []string
	for _, in := range s.Inputs {
		if _, ok := s.Files[in]; ok {
			ps = append(ps, in)
		}
	}
	sort.Strings(ps)
	return ps
}

func hasInput(s State, n string) bool {
	for _, in := range s.Inputs {
		if in == n {
			return true
		}
	}
	return false
}

func removeInput(s *State, n string) {
	var ins []string
	for _, in := range s.Inputs {
		if in != n {
			ins = append(ins, in)
		}
	}
	s.Inputs = ins
	delete(s.Files, n)
}

var equalKinds = []string{"identity", "permute-inputs", "permute-outputs", "permute-deps", "permute-fingerprint", "relocate", "touch", "bystander-file", "platform-under-multiplatform", "all-permutations"}
var differKinds = []string{
	"single:label-name", "single:label-pkg", "single:command", "single:content", "single:add-input", "single:remove-input", "single:rename-input",
	"single:output", "single:dep", "single:fp-value", "single:fp-key", "single:platform",
	"shift:file-boundary", "shift:file-boundary-header", "shift:file-boundary-trailer", "shift:present-absent", "shift:list-element-inputs", "shift:label-command", "shift:command-inputs",
	"shift:inputs-outputs", "shift:outputs-deps", "shift:deps-fingerprint", "shift:fingerprint-platform", "shift:fingerprint-names-platform", "shift:fp-key-value", "shift:fp-list-element",
}

var trailerHeaders = []func(string) string{
	func(p string) string { return fmt.Sprintf("%d:%s", len(p), p) },
	func(p string) string { return p },
	func(p string) string { return p + "\x00" },
	func(p string) string { return "" },
}

type trailerSol struct {
	xp, u, y1 int
	y2        string
}

var trailerCache = map[string][]trailerSol{}

// trailerSolutions: all small solutions of the length equation of "shift:file-boundary-trailer" (pure function, memoised).
func trailerSolutions(n2 string, style int) []trailerSol {
	key := fmt.Sprintf("%s/%d", n2, style)
	if s, ok := trailerCache[key]; ok {
		return s
	}
	h := len(trailerHeaders[style](n2))
	digits := func(n int) int { return len(fmt.Sprint(n)) }
	var sols []trailerSol
	for xp := 0; xp <= 3; xp++ {
		for u := 0; u <= 40; u++ {
			xLen := xp + digits(xp) + 1 + h + u
			for y1 := 0; y1 <= 12; y1++ {
				yPrimeLen := u + digits(xLen) + 1 + h + y1
				for d := 1; d <= 99; d++ {
					y2 := fmt.Sprint(d)
					if fmt.Sprint(yPrimeLen) == y2+fmt.Sprint(y1+len(y2)) {
						sols = append(sols, trailerSol{xp, u, y1, y2})
					}
				}
			}
		}
	}
	trailerCache[key] = sols
	return sols
}

// derive builds B from A for the named kind; ok=false when A does not admit it
// (the generator then adapts A minimally instead of rejecting the draw).
func derive(t *rapid.T, a *State, kind string) (State, bool) {
	b := a.clone()
	switch kind {
	case "identity":
	case "permute-inputs":
		b.Inputs = permute(t, a.Inputs, "pi")
	case "permute-outputs":
		b.Outputs = permute(t, a.Outputs, "po")
	case "permute-deps":
		b.DepHashes = permute(t, a.DepHashes, "pd")
	case "permute-fingerprint":
		b.Fingerprint = permute(t, a.Fingerprint, "pf")
	case "all-permutations":
		b.Inputs = permute(t, a.Inputs, "pi")
		b.Outputs = permute(t, a.Outputs, "po")
		b.DepHashes = permute(t, a.DepHashes, "pd")
		b.Fingerprint = permute(t, a.Fingerprint, "pf")
		b.Root = "another/place/ws2"
		b.Touch = true
	case "relocate":
		b.Root = "another/place/ws2"
	case "touch":
		b.Touch = true
	case "bystander-file":
		b.Files["not-an-input.txt"] = "noise"
	case "platform-under-multiplatform":
		a.Multi, b.Multi = true, true
		b.OS, b.Arch = "plan9", "riscv64"
	case "single:label-name":
		b.Name = a.Name + "x"
	case "single:label-pkg":
		b.Pkg = strings.TrimPrefix(a.Pkg+"/r", "/")
	case "single:command":
		b.Command = a.Command + " "
	case "single:content":
		ps := presentSorted(*a)
		if len(ps) == 0 {
			a.Inputs = append(a.Inputs, "c")
			a.Files["c"] = "x"
			b = a.clone()
			ps = presentSorted(*a)
		}
		f := rapid.SampledFrom(ps).Draw(t, "f")
		b.Files[f] = a.Files[f] + rapid.SampledFrom([]string{"x", "\n", ","}).Draw(t, "suffix")
	case "single:add-input":
		for _, n := range fileNames {
			if !hasInput(*a, n) {
				b.Inputs = append(b.Inputs, n)
				b.Files[n] = rapid.SampledFrom([]string{"", "x"}).Draw(t, "newcontent")
				return b, true
			}
		}
		return b, false
	case "single:remove-input":
		ps := presentSorted(*a)
		if len(ps) == 0 {
			return b, false
		}
		removeInput(&b, rapid.SampledFrom(ps).Draw(t, "f"))
	case "single:rename-input":
		ps := presentSorted(*a)
		if len(ps) == 0 {
			return b, false
		}
		f := rapid.SampledFrom(ps).Draw(t, "f")
		nn := f + "2"
		c := a.Files[f]
		removeInput(&b, f)
		b.Inputs = append(b.Inputs, nn)
		b.Files[nn] = c
	case "single:output":
		switch rapid.IntRange(0, 2).Draw(t, "how") {
		case 0:
			b.Outputs = append(b.Outputs, "extra-out")
		case 1:
			if len(a.Outputs) == 0 {
				b.Outputs = []string{"o"}
			} else {
				b.Outputs = a.Outputs[1:]
			}
		default:
			if len(a.Outputs) == 0 {
				a.Outputs = []string{"o"}
				b = a.clone()
			}
			o := a.Outputs[0]
			if strings.HasPrefix(o, "dir::") {
				b.Outputs[0] = strings.TrimPrefix(o, "dir::")
			} else {
				b.Outputs[0] = "dir::" + o
			}
		}
	case "single:dep":
		if len(a.DepHashes) == 0 || rapid.Bool().Draw(t, "adddep") {
			b.DepHashes = append(b.DepHashes, genHash(t, "newdep"))
		} else {
			h := []byte(a.DepHashes[0])
			if h[0] == 'f' {
				h[0] = '0'
			} else {
				h[0] = 'f'
			}
			b.DepHashes[0] = string(h)
		}
	case "single:fp-value":
		if len(a.Fingerprint) == 0 {
			a.Fingerprint = [][2]string{{"k", "1"}}
			b = a.clone()
		}
		b.Fingerprint[0][1] = a.Fingerprint[0][1] + "2"
	case "single:fp-key":
		b.Fingerprint = append(b.Fingerprint, [2]string{"newkey", ""})
	case "single:platform":
		a.Multi, b.Multi = false, false
		if a.Arch == "amd64" {
			b.Arch = "arm64"
		} else {
			b.Arch = "amd64"
		}
	case "shift:file-boundary":
		// move a suffix of file i to the front of file i+1 (sorted order); concatenation unchanged
		ps := presentSorted(*a)
		if len(ps) < 2 {
			a.Inputs = []string{"a", "b"}
			a.Files = map[string]string{"a": "xy", "b": "z"}
			if rapid.Bool().Draw(t, "third") {
				a.Inputs = append(a.Inputs, "c")
				a.Files["c"] = ""
			}
			b = a.clone()
			ps = presentSorted(*a)
		}
		i := rapid.IntRange(0, len(ps)-2).Draw(t, "i")
		if a.Files[ps[i]] == "" {
			a.Files[ps[i]] = "xy"
			b = a.clone()
		}
		src := a.Files[ps[i]]
		k := rapid.IntRange(1, len(src)).Draw(t, "k")
		b.Files[ps[i]] = src[:len(src)-k]
		b.Files[ps[i+1]] = src[len(src)-k:] + a.Files[ps[i+1]]
	case "shift:file-boundary-header":
		// the moved bytes look like a plausible frame header of the next file, so a
		// framing that is not self-delimiting (no size, or no path) still collides
		n1, n2 := "a.txt", "b.txt"
		if rapid.Bool().Draw(t, "subdir") {
			n1, n2 = "src/a", "src/b"
		}
		x := rapid.SampledFrom([]string{"", "X", "xy"}).Draw(t, "x")
		y := rapid.SampledFrom([]string{"", "Y", "yz"}).Draw(t, "y")
		hdr := rapid.SampledFrom([]string{
			fmt.Sprintf("%d:%s", len(n2), n2),
			n2,
			n2 + "\x00",
			"\x00" + n2 + "\x00",
			fmt.Sprintf("%d:%s%d:", len(n2), n2, len(y)),
			fmt.Sprintf("%s:%d:", n2, len(y)),
			fmt.Sprintf("%s\n%d\n", n2, len(y)),
			fmt.Sprintf("%s=", n2),
			"," + n2,
		}).Draw(t, "hdr")
		a.Inputs = []string{n1, n2}
		a.Files = map[string]string{n1: x + hdr, n2: y}
		b = a.clone()
		b.Files = map[string]string{n1: x, n2: hdr + y}
	case "shift:file-boundary-trailer":
		// the same idea for a framing that writes the size AFTER the content (header(path) content size ':'), which is
		// not injective: digits at the end of a content merge into the trailer. Solve
		//   header(n1) X  T(X)  header(n2) Y  T(Y)  ==  header(n1) X' T(X') header(n2) Y' T(Y')
		// with X = X' T(X') header(n2) U,  Y = Y1 Y2,  Y' = U T(X) header(n2) Y1,  str(|Y'|) = Y2 str(|Y|).
		n1, n2 := "a", "b"
		if rapid.Bool().Draw(t, "longnames") {
			n1, n2 = "src/a.txt", "src/b.txt"
		}
		style := rapid.IntRange(0, 3).Draw(t, "hdrstyle")
		hdrOf := trailerHeaders[style]
		trailer := func(c string) string { return fmt.Sprintf("%d:", len(c)) }
		sols := trailerSolutions(n2, style)
		if len(sols) == 0 {
			return b, false
		}
		so := sols[rapid.IntRange(0, len(sols)-1).Draw(t, "solution")]
		xPrime := strings.Repeat("c", so.xp)
		uu, y1 := strings.Repeat("x", so.u), strings.Repeat("y", so.y1)
		x := xPrime + trailer(xPrime) + hdrOf(n2) + uu
		a.Inputs = []string{n1, n2}
		a.Files = map[string]string{n1: x, n2: y1 + so.y2}
		b = a.clone()
		b.Files = map[string]string{n1: xPrime, n2: uu + trailer(x) + hdrOf(n2) + y1}
	case "shift:present-absent":
		// content moves from a present declared input to an absent declared input
		a.Inputs = []string{"a", "b"}
		content := rapid.SampledFrom([]string{"xy", "", "x"}).Draw(t, "content")
		a.Files = map[string]string{"a": content}
		b = a.clone()
		delete(b.Files, "a")
		b.Files["b"] = content
	case "shift:list-element-inputs":
		// inputs ["a,b"] vs ["a","b"]: joined names identical, concatenated contents identical
		x := rapid.SampledFrom([]string{"", "xy", "x"}).Draw(t, "x")
		k := rapid.IntRange(0, len(x)).Draw(t, "k")
		a.Inputs = []string{"a,b"}
		a.Files = map[string]string{"a,b": x}
		b = a.clone()
		b.Inputs = []string{"a", "b"}
		b.Files = map[string]string{"a": x[:k], "b": x[k:]}
	case "shift:label-command":
		a.Name, a.Command = "ab", "c "+a.Command
		b = a.clone()
		b.Name, b.Command = "a", "b"+a.Command
	case "shift:command-inputs":
		a.Inputs = []string{"ab"}
		a.Files = map[string]string{"ab": "x"}
		a.Command = "echo "
		b = a.clone()
		b.Command = "echo a"
		b.Inputs = []string{"b"}
		b.Files = map[string]string{"b": "x"}
	case "shift:inputs-outputs":
		a.Inputs = []string{"a"}
		a.Files = map[string]string{"a": "x"}
		a.Outputs = []string{"o"}
		b = a.clone()
		b.Inputs = []string{"afile::o"}
		b.Files = map[string]string{"afile::o": "x"}
		b.Outputs = nil
	case "shift:outputs-deps":
		h := genHash(t, "h")
		a.Outputs = []string{"o"}
		a.DepHashes = []string{h}
		b = a.clone()
		b.Outputs = []string{"o" + h}
		b.DepHashes = nil
	case "shift:deps-fingerprint":
		h := genHash(t, "h")
		a.DepHashes = []string{h}
		a.Fingerprint = [][2]string{{"a", "b"}}
		b = a.clone()
		b.DepHashes = nil
		b.Fingerprint = [][2]string{{h + "a", "b"}}
	case "shift:fingerprint-names-platform":
		// a fingerprint entry that spells out the platform is not the platform component: a platform-independent target
		// carrying {<name>: os/arch} and a platform-dependent one without that entry are different states
		name := rapid.SampledFrom([]string{"platform", "os", "arch", "Platform"}).Draw(t, "fpname")
		rest := [][2]string{}
		for _, kv := range a.Fingerprint {
			if kv[0] != name {
				rest = append(rest, kv)
			}
		}
		a.Fingerprint = rest
		b = a.clone()
		a.Multi, b.Multi = true, false
		a.Fingerprint = append([][2]string{{name, a.OS + "/" + a.Arch}}, rest...)
	case "shift:fingerprint-platform":
		a.Multi = false
		a.Fingerprint = [][2]string{{"a", "b"}}
		b = a.clone()
		b.Multi = true
		b.Fingerprint = [][2]string{{"a", "b" + a.OS + "/" + a.Arch}}
	case "shift:fp-key-value":
		a.Fingerprint = [][2]string{{"a", "b=c"}}
		b = a.clone()
		b.Fingerprint = [][2]string{{"a=b", "c"}}
	case "shift:fp-list-element":
		a.Fingerprint = [][2]string{{"a", "b,c=d"}}
		b = a.clone()
		b.Fingerprint = [][2]string{{"a", "b"}, {"c", "d"}}
	}
	return b, true
}

func gen(t *rapid.T) Case {
	a := genState(t)
	rel := "differ"
	var kind string
	if rapid.IntRange(0, 2).Draw(t, "rel") == 0 {
		rel = "equal"
		kind = rapid.SampledFrom(equalKinds).Draw(t, "kind")
	} else {
		kind = rapid.SampledFrom(differKinds).Draw(t, "kind")
	}
	b, ok := derive(t, &a, kind)
	if !ok {
		kind = "single:command"
		b, _ = derive(t, &a, kind)
	}
	return Case{A: a, B: b, Relation: rel, Kind: kind}
}

func TestMain(m *testing.M) {
	dir, err := os.MkdirTemp("", "c09-")
	if err != nil {
		panic(err)
	}
	tmpRoot = dir
	code := m.Run()
	_ = os.RemoveAll(dir)
	os.Exit(code)
}

func TestPairs(t *testing.T) {
	pbt.Main(t, pbt.Spec[Case]{ID: "C09", Gen: gen, Run: run})
}

// ------------------------------------------------------------------ part 2:
// dependency output digests reach the key also when the dependency is declared
// through an alias (TargetHasher level, the graph is built by analysis.BuildGraph).

type AliasCase struct {
	Chain   int    `json:"alias_chain"` // 0 = direct dependency, n = through n aliases
	H1      string `json:"h1"`
	H2      string `json:"h2"`
	Extra   bool   `json:"extra_direct_dep"`
	AliasIn string `json:"alias_pkg"`
}

func changeHashVia(c AliasCase, depOutputHash string) (string, error) {
	config.Global = config.WorkspaceConfig{WorkspaceRoot: tmpRoot, HashAlgorithm: config.HashAlgorithmSHA256, OS: "linux", Arch: "amd64"}
	x := &model.Target{Label: label.TL("lib", "x"), Command: "true", OutputHash: depOutputHash, ChangeHash: "cx"}
	y := &model.Target{Label: label.TL("lib", "y"), Command: "true", OutputHash: strings.Repeat("7", 32), ChangeHash: "cy"}
	nodes := model.BuildNodeMap{x.Label: x, y.Label: y}
	depLabel := x.Label
	for i := 0; i < c.Chain; i++ {
		al := &model.Alias{Label: label.TL(c.AliasIn, fmt.Sprintf("al%d", i)), Actual: depLabel}
		nodes[al.Label] = al
		depLabel = al.Label
	}
	d := &model.Target{Label: label.TL("app", "d"), Command: "true", Dependencies: []label.TargetLabel{depLabel}}
	if c.Extra {
		d.Dependencies = append(d.Dependencies, y.Label)
	}
	nodes[d.Label] = d
	g, err := analysis.BuildGraph(nodes)
	if err != nil {
		return "", err
	}
	h := hashing.NewTargetHasher(g)
	if err := h.SetTargetChangeHash(d); err != nil {
		return "", err
	}
	return d.ChangeHash, nil
}

func TestAliasDeps(t *testing.T) {
	pbt.Main(t, pbt.Spec[AliasCase]{ID: "C09",
		Gen: func(t *rapid.T) AliasCase {
			h1 := genHash(t, "h1")
			h2 := genHash(t, "h2")
			if h1 == h2 {
				h2 = h2[:len(h2)-1] + map[bool]string{true: "0", false: "1"}[h2[len(h2)-1] != '0']
			}
			return AliasCase{Chain: rapid.IntRange(0, 3).Draw(t, "chain"), H1: h1, H2: h2, Extra: rapid.Bool().Draw(t, "extra"),
				AliasIn: rapid.SampledFrom([]string{"lib", "app", "other"}).Draw(t, "aliaspkg")}
		},
		Run: func(c AliasCase) (pbt.Result, error) {
			res := pbt.Result{NonTrivial: c.Chain > 0, Classes: []string{fmt.Sprintf("alias-chain-%d", c.Chain)}}
			k1, err := changeHashVia(c, c.H1)
			if err != nil {
				return res, pbt.Fail("hash-error", "%v", err)
			}
			k1b, _ := changeHashVia(c, c.H1)
			k2, err := changeHashVia(c, c.H2)
			if err != nil {
				return res, pbt.Fail("hash-error", "%v", err)
			}
			if k1 != k1b {
				return res, pbt.Fail("nondeterministic-key", "same state hashed twice: %s vs %s", k1, k1b)
			}
			if k1 == k2 {
				return res, pbt.Fail("dep-output-ignored-through-alias", "dependant's key %s does not change when the output digest of its dependency (declared through %d alias(es)) changes from %s to %s", k1, c.Chain, c.H1, c.H2)
			}
			return res, nil
		}})
}
