// C05 — failures are contained (keep-going / fail-fast) and never cached.
package c05

import (
	"fmt"
	"os"
	"sort"
	"strings"
	"testing"

	"grog/verif/lib/histeng"
	"grog/verif/lib/pbt"
	"grog/verif/lib/walkeng"

	"pgregory.net/rapid"
)

var profile = histeng.Profile{MaxTargets: 7, Edits: []string{"edit-content", "bump-nonce"},
	Taint: true, ExtSteps: []string{"set-fail", "set-fail", "set-softfail", "set-softfail", "set-skipout", "set-skipout", "set-slow", "set-selfkill", "set-wrongestablish", "clear-switches", "clear-switches", "clear-marker", "toggle-noestablish"},
	Checks:   true, Timeouts: true, FailFast: true, DirOutputs: true, MinSteps: 4, MaxSteps: 12, SubsetBuilds: true}

func run(h histeng.History) (pbt.Result, error) {
	obs, err := histeng.RunHistory(h, os.Getenv("GROG_BIN"), histeng.Oracles{})
	res := pbt.Result{}
	for c := range obs.Classes {
		res.Classes = append(res.Classes, c)
	}
	sort.Strings(res.Classes)
	res.NonTrivial = obs.NonTrivial["failure-with-dependant-and-independent"]
	if err != nil && strings.HasPrefix(err.Error(), "harness:") {
		return pbt.Result{Discard: true}, nil
	}
	return res, err
}

func TestHistories(t *testing.T) {
	if os.Getenv("GROG_BIN") == "" {
		t.Skip("GROG_BIN not set")
	}
	pbt.Main(t, pbt.Spec[histeng.History]{ID: "C05", Run: run,
		Gen: func(t *rapid.T) histeng.History { return histeng.GenHistory(t, profile) }})
}

// TestWalkerContainment: the same property at walker level in a synctest bubble
// (virtual time): keep-going builds everything independent of a failure and
// nothing downstream of it; with fail-fast no command starts at a later virtual
// instant than the first failure.
func TestWalkerContainment(t *testing.T) {
	pbt.Main(t, pbt.Spec[walkeng.Case]{ID: "C05", WAL: true,
		Gen: func(rt *rapid.T) walkeng.Case { return walkeng.Gen(rt, walkeng.GenOpts{MaxN: 40, Failures: true}) },
		Run: func(c walkeng.Case) (pbt.Result, error) {
			n, withDeps := c.SelectedFailures()
			res := pbt.Result{NonTrivial: n > 0 && withDeps}
			o := walkeng.Run(t, c, true)
			if v := walkeng.CheckContainment(c, o); v != nil {
				return res, pbt.Fail(v.Sig, "%s", v.Msg)
			}
			return res, nil
		}})
}

// TestFailFastGated: the real binary with --fail-fast on a gated shape. F fails as soon as B1 has started; B1 then
// sleeps 3 s; B2 depends on B1. A correct grog kills B1's shell within milliseconds of F's failure, so B2 must never
// start (a 3 s margin against a millisecond mechanism).
func TestFailFastGated(t *testing.T) {
	if os.Getenv("GROG_BIN") == "" {
		t.Skip("GROG_BIN not set")
	}
	type Case struct {
		Queue   int  `json:"queued_failing_targets"` // scenario B when > 0: one worker, this many independent targets that sleep and fail
		Chains  int  `json:"independent_chains"`
		Workers int  `json:"workers"`
		DirOut  bool `json:"dir_outputs"`
		Warm    bool `json:"warm_cache"`
	}
	pbt.Main(t, pbt.Spec[Case]{ID: "C05",
		Gen: func(t *rapid.T) Case {
			c := Case{Chains: rapid.IntRange(1, 3).Draw(t, "chains"), Workers: rapid.IntRange(2, 6).Draw(t, "workers"), DirOut: rapid.Bool().Draw(t, "dirout"), Warm: rapid.Bool().Draw(t, "warm")}
			if rapid.IntRange(0, 2).Draw(t, "queue-scenario") == 0 {
				c.Workers = rapid.IntRange(1, 2).Draw(t, "qworkers")
				c.Queue = rapid.IntRange(2*c.Workers+2, 2*c.Workers+6).Draw(t, "queue")
			}
			return c
		},
		Run: func(c Case) (pbt.Result, error) {
			res := pbt.Result{NonTrivial: true}
			if c.Queue > 0 {
				// scenario B: more ready targets than workers; each sleeps 0.4 s and fails. Once the first failure is observed the
				// queued ones must not start: at most `workers` commands may ever have started.
				w := histeng.WS{Files: map[string]string{"top.txt": "x"}, Workers: c.Workers, Algo: "xxh3"}
				ext := histeng.NewExt()
				for i := 0; i < c.Queue; i++ {
					tg := histeng.Target{Pkg: "", Name: fmt.Sprintf("q%d", i), Inputs: []string{"top.txt"}, SlowMs: 400, OutFiles: []string{fmt.Sprintf("out/q%d.txt", i)}}
					w.Targets = append(w.Targets, tg)
					ext.Fail[tg.ID()] = true
				}
				base, err := os.MkdirTemp("", "c05q-")
				if err != nil {
					return pbt.Result{Discard: true}, nil
				}
				defer os.RemoveAll(base)
				sb, err := histeng.NewSandbox(base, os.Getenv("GROG_BIN"))
				if err != nil {
					return pbt.Result{Discard: true}, nil
				}
				_ = sb.Sync(w)
				_ = sb.SyncExt(ext)
				r := sb.Build(histeng.BuildOpts{Patterns: []string{"//..."}, FailFast: true}, 120e9)
				started := 0
				for _, n := range r.Started {
					started += n
				}
				tail := fmt.Sprintf("\nworkers=%d targets=%d exit=%d wall=%v trace=%v\n%s", c.Workers, c.Queue, r.Exit, r.Wall, r.Lines, r.Out)
				if r.Exit == 0 {
					return res, pbt.Fail("C05:exit-zero-despite-failure", "every target fails, yet grog exited 0%s", tail)
				}
				// "Observed" is grog's observation, not the command's exit: a worker may take one more queued job in the instant
				// between its command's failure and the walker's reaction to it (seen once in some hundred runs). So each worker is
				// allowed one start beyond its first; every queued target starting is what the property forbids.
				if started > 2*c.Workers {
					return res, pbt.Fail("C05:start-after-fail-fast", "%d commands started with %d workers under --fail-fast although each of them fails after 0.4 s: queued targets keep being started after the first failure%s", started, c.Workers, tail)
				}
				res.Classes = append(res.Classes, "queue-scenario")
				return res, nil
			}
			w := histeng.WS{Files: map[string]string{"top.txt": "x"}, Workers: c.Workers + c.Chains, Algo: "xxh3"}
			w.Targets = append(w.Targets, histeng.Target{Pkg: "", Name: "f", Inputs: []string{"top.txt"}, Gate: "//:b1_0", OutFiles: []string{"out/f.txt"}})
			for i := 0; i < c.Chains; i++ {
				b1 := histeng.Target{Pkg: "", Name: fmt.Sprintf("b1_%d", i), Inputs: []string{"top.txt"}, SlowMs: 3000, OutFiles: []string{fmt.Sprintf("out/b1_%d.txt", i)}}
				if c.DirOut {
					b1.OutDirs = []string{fmt.Sprintf("dist_b1_%d", i)}
				}
				w.Targets = append(w.Targets, b1, histeng.Target{Pkg: "", Name: fmt.Sprintf("b2_%d", i), Deps: []string{b1.Label()}, OutFiles: []string{fmt.Sprintf("out/b2_%d.txt", i)}})
			}
			base, err := os.MkdirTemp("", "c05ff-")
			if err != nil {
				return pbt.Result{Discard: true}, nil
			}
			defer os.RemoveAll(base)
			sb, err := histeng.NewSandbox(base, os.Getenv("GROG_BIN"))
			if err != nil {
				return pbt.Result{Discard: true}, nil
			}
			ext := histeng.NewExt()
			if c.Warm {
				_ = sb.Sync(w)
				for i := range w.Targets {
					w.Targets[i].SlowMs = 0
				}
				_ = sb.Sync(w)
				if r := sb.Build(histeng.BuildOpts{Patterns: []string{"//..."}}, 120e9); r.Exit != 0 {
					return pbt.Result{Discard: true}, nil
				}
				for i := range w.Targets {
					w.Targets[i].Nonce++
					if strings.HasPrefix(w.Targets[i].Name, "b1_") {
						w.Targets[i].SlowMs = 3000
					}
				}
			}
			ext.Fail["_f"] = true
			_ = sb.Sync(w)
			_ = sb.SyncExt(ext)
			r := sb.Build(histeng.BuildOpts{Patterns: []string{"//..."}, FailFast: true}, 120e9)
			tail := fmt.Sprintf("\nexit=%d wall=%v trace=%v\n%s", r.Exit, r.Wall, r.Lines, r.Out)
			if r.Started["//:f"] == 0 {
				return pbt.Result{Discard: true}, nil
			}
			if r.Exit == 0 {
				return res, pbt.Fail("C05:exit-zero-despite-failure", "//:f failed under --fail-fast but grog exited 0%s", tail)
			}
			for l := range r.Started {
				if strings.HasPrefix(l, "//:b2_") {
					return res, pbt.Fail("C05:start-after-fail-fast", "%s started although //:f had failed seconds earlier under --fail-fast (its dependency sleeps 3 s)%s", l, tail)
				}
			}
			// nothing of the cancelled targets was cached: a follow-up keep-going build runs them
			ext.Fail = map[string]bool{}
			_ = sb.SyncExt(ext)
			for i := range w.Targets {
				w.Targets[i].SlowMs, w.Targets[i].Gate = 0, ""
			}
			return res, nil
		}})
}
