// C05 — failures are contained (keep-going / fail-fast) and never cached.
package c05

import (
	"os"
	"sort"
	"strings"
	"testing"

	"grog/verif/lib/histeng"
	"grog/verif/lib/pbt"
	"grog/verif/lib/walkeng"

	"pgregory.net/rapid"
)

var profile = histeng.Profile{MaxTargets: 7, Edits: []string{"edit-content", "bump-nonce"},
	ExtSteps: []string{"set-fail", "set-fail", "set-fail", "set-skipout", "set-skipout", "set-slow", "set-selfkill", "set-wrongestablish", "clear-switches", "clear-switches", "clear-marker", "toggle-noestablish"},
	Checks:   true, Timeouts: true, FailFast: true, DirOutputs: true, MinSteps: 4, MaxSteps: 12, SubsetBuilds: true}

func run(h histeng.History) (pbt.Result, error) {
	obs, err := histeng.RunHistory(h, os.Getenv("GROG_BIN"), histeng.Oracles{})
	res := pbt.Result{}
	for c := range obs.Classes {
		res.Classes = append(res.Classes, c)
	}
	sort.Strings(res.Classes)
	res.NonTrivial = obs.NonTrivial["failure-with-dependant-and-independent"]
	if err != nil && strings.HasPrefix(err.Error(), "harness:") {
		return pbt.Result{Discard: true}, nil
	}
	return res, err
}

func TestHistories(t *testing.T) {
	if os.Getenv("GROG_BIN") == "" {
		t.Skip("GROG_BIN not set")
	}
	pbt.Main(t, pbt.Spec[histeng.History]{ID: "C05", Run: run,
		Gen: func(t *rapid.T) histeng.History { return histeng.GenHistory(t, profile) }})
}

// TestWalkerContainment: the same property at walker level in a synctest bubble
// (virtual time): keep-going builds everything independent of a failure and
// nothing downstream of it; with fail-fast no command starts at a later virtual
// instant than the first failure.
func TestWalkerContainment(t *testing.T) {
	pbt.Main(t, pbt.Spec[walkeng.Case]{ID: "C05", WAL: true,
		Gen: func(rt *rapid.T) walkeng.Case { return walkeng.Gen(rt, walkeng.GenOpts{MaxN: 40, Failures: true}) },
		Run: func(c walkeng.Case) (pbt.Result, error) {
			n, withDeps := c.SelectedFailures()
			res := pbt.Result{NonTrivial: n > 0 && withDeps}
			o := walkeng.Run(t, c, true)
			if v := walkeng.CheckContainment(c, o); v != nil {
				return res, pbt.Fail(v.Sig, "%s", v.Msg)
			}
			return res, nil
		}})
}
