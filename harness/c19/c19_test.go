// C19 — graph algorithms scale polynomially, not with the number of paths.
//
// Parametric families (ladder = layered complete-bipartite graph with
// w^(d-1) dependency paths, dense DAG with 2^(n-2) paths) against chains of the
// same node count. The oracle is a deterministic work counter wherever the
// code offers one (Select() calls, lengths of traversal results, cancellation
// fan-out) and child CPU time with a three-orders-of-magnitude margin elsewhere.
package c19

import (
	"context"
	"errors"
	"fmt"
	"os"
	"strings"
	"syscall"
	"testing"
	"time"

	"grog/internal/analysis"
	"grog/internal/config"
	"grog/internal/dag"
	"grog/internal/label"
	"grog/internal/model"
	"grog/internal/selection"
	"grog/verif/lib/pbt"

	"pgregory.net/rapid"
)

type Case struct {
	Family string `json:"family"` // ladder | dense | chain
	Depth  int    `json:"depth"`
	Width  int    `json:"width"`
	Op     string `json:"op"`
	// family "random": an irregular layered DAG, a pure function of these fields
	Widths  []int  `json:"widths,omitempty"`
	Density int    `json:"density,omitempty"` // percent of the possible edges to the previous layer
	Skip    int    `json:"skip,omitempty"`    // percent of the possible edges to the layer before that
	Seed    uint32 `json:"seed,omitempty"`
}

// mix is a small deterministic hash: the irregular family must not own a random source of its own.
func mix(a, b, c, d uint32) uint32 {
	h := a*0x9E3779B1 ^ (b+0x7F4A7C15)*0x85EBCA77 ^ (c+0x165667B1)*0xC2B2AE3D ^ (d+0x27D4EB2F)*0x27D4EB2F
	h ^= h >> 15
	h *= 0x2C1B3C6D
	h ^= h >> 12
	h *= 0x297A2D39
	h ^= h >> 15
	return h
}

// countingNode is a BuildNode that counts the work the selector does on it.
type countingNode struct {
	lbl      label.TargetLabel
	deps     []label.TargetLabel
	selected bool
	selects  *int
}

func (n *countingNode) GetLabel() label.TargetLabel          { return n.lbl }
func (n *countingNode) GetDependencies() []label.TargetLabel { return n.deps }
func (n *countingNode) Select()                              { n.selected = true; *n.selects++ }
func (n *countingNode) GetIsSelected() bool                  { return n.selected }
func (n *countingNode) GetType() model.NodeType              { return model.TargetNode }

type shape struct {
	layers [][]string // node names per layer, layer 0 = roots (no dependencies)
	edges  map[string][]string
}

func family(c Case) shape {
	s := shape{edges: map[string][]string{}}
	switch c.Family {
	case "ladder":
		for d := 0; d < c.Depth; d++ {
			var layer []string
			for w := 0; w < c.Width; w++ {
				layer = append(layer, fmt.Sprintf("n%d_%d", d, w))
			}
			s.layers = append(s.layers, layer)
			if d > 0 {
				for _, n := range layer {
					s.edges[n] = append([]string{}, s.layers[d-1]...)
				}
			}
		}
		// single source and sink so that queries have one obvious subject
		s.layers = append([][]string{{"root"}}, s.layers...)
		for _, n := range s.layers[1] {
			s.edges[n] = []string{"root"}
		}
		s.layers = append(s.layers, []string{"top"})
		s.edges["top"] = append([]string{}, s.layers[len(s.layers)-2]...)
	case "random":
		s.layers = append(s.layers, []string{"root"})
		for d, w := range c.Widths {
			var layer []string
			for i := 0; i < w; i++ {
				n := fmt.Sprintf("n%d_%d", d, i)
				layer = append(layer, n)
				prev := s.layers[len(s.layers)-1]
				for j, pn := range prev {
					// the first edge keeps every node on a path from the root
					if j == i%len(prev) || int(mix(c.Seed, uint32(d), uint32(i), uint32(j))%100) < c.Density {
						s.edges[n] = append(s.edges[n], pn)
					}
				}
				if len(s.layers) >= 2 {
					for j, pn := range s.layers[len(s.layers)-2] {
						if int(mix(c.Seed^0xABCDEF, uint32(d), uint32(i), uint32(j))%100) < c.Skip {
							s.edges[n] = append(s.edges[n], pn)
						}
					}
				}
			}
			s.layers = append(s.layers, layer)
		}
		s.layers = append(s.layers, []string{"top"})
		s.edges["top"] = append([]string{}, s.layers[len(s.layers)-2]...)
		// nodes nothing depends on would not be reached from "top": hang them under it
		used := map[string]bool{}
		for _, ds := range s.edges {
			for _, d := range ds {
				used[d] = true
			}
		}
		for _, layer := range s.layers[1 : len(s.layers)-2] {
			for _, n := range layer {
				if !used[n] {
					s.edges["top"] = append(s.edges["top"], n)
				}
			}
		}
	case "dense":
		n := c.Depth
		for i := 0; i < n; i++ {
			name := fmt.Sprintf("n%d", i)
			if i == 0 {
				name = "root"
			}
			if i == n-1 {
				name = "top"
			}
			s.layers = append(s.layers, []string{name})
			for j := 0; j < i; j++ {
				s.edges[name] = append(s.edges[name], s.layers[j][0])
			}
		}
	default: // chain with as many nodes as the ladder of the same parameters
		n := c.Depth*c.Width + 2
		for i := 0; i < n; i++ {
			name := fmt.Sprintf("n%d", i)
			if i == 0 {
				name = "root"
			}
			if i == n-1 {
				name = "top"
			}
			s.layers = append(s.layers, []string{name})
			if i > 0 {
				s.edges[name] = []string{s.layers[i-1][0]}
			}
		}
	}
	return s
}

func (s shape) size() (v, e int) {
	for _, l := range s.layers {
		v += len(l)
	}
	for _, d := range s.edges {
		e += len(d)
	}
	return
}

func tl(n string) label.TargetLabel { return label.TargetLabel{Package: "p", Name: n} }

// withOutputs: 0 none; 1 the first node of every layer writes one shared directory; 2 only the bottom and the top
// node write the same file (their order has to be proven across the whole graph, nothing in between is cached).
func targetGraph(s shape, withOutputs int) (*dag.DirectedTargetGraph, model.BuildNodeMap, error) {
	nodes := model.BuildNodeMap{}
	for li, layer := range s.layers {
		for wi, n := range layer {
			t := &model.Target{Label: tl(n), Command: "true"}
			for _, d := range s.edges[n] {
				t.Dependencies = append(t.Dependencies, tl(d))
			}
			// every layer's first node writes the same directory: legal, because those writers are totally ordered
			if withOutputs == 1 && wi == 0 {
				t.Outputs = []model.Output{model.NewOutput("dir", "shared"), model.NewOutput("file", fmt.Sprintf("f%d", li))}
			}
			if withOutputs == 2 && (n == "root" || n == "top") {
				t.Outputs = []model.Output{model.NewOutput("file", "same.txt")}
			}
			nodes[t.Label] = t
		}
	}
	g, err := analysis.BuildGraph(nodes)
	return g, nodes, err
}

func cpu() time.Duration {
	var ru syscall.Rusage
	_ = syscall.Getrusage(syscall.RUSAGE_SELF, &ru)
	return time.Duration(ru.Utime.Nano() + ru.Stime.Nano())
}

type opResult struct {
	work  int // deterministic work counter (0 = not available)
	bound int
	cpu   time.Duration
	note  string
}

const cpuLimit = 2 * time.Second

func testingTier() string { return os.Getenv("VERIF_TIER") }

// poisoned: an earlier operation of this process is still running in the background after its watchdog fired, so
// process CPU time no longer measures the operation under test (only watchdogs and work counters decide from then on).
var poisoned bool

func runOp(c Case) (opResult, error) {
	type outcome struct {
		res opResult
		err error
	}
	ch := make(chan outcome, 1)
	start := cpu()
	go func() {
		res, err := runOpInner(c)
		ch <- outcome{res, err}
	}()
	select {
	case o := <-ch:
		return o.res, o.err
	case <-time.After(90 * time.Second):
		poisoned = true
		return opResult{cpu: cpu() - start, note: "did not finish within 90 s"}, nil
	}
}

func runOpInner(c Case) (opResult, error) {
	s := family(c)
	v, e := s.size()
	bound := 4 * (v + e)
	config.Global = config.WorkspaceConfig{OS: "linux", Arch: "amd64", WorkspaceRoot: "/nonexistent"}
	res := opResult{bound: bound}
	switch c.Op {
	case "select":
		counter := 0
		g := dag.NewDirectedGraph()
		byName := map[string]*countingNode{}
		for _, layer := range s.layers {
			for _, n := range layer {
				cn := &countingNode{lbl: tl(n), selects: &counter}
				for _, d := range s.edges[n] {
					cn.deps = append(cn.deps, tl(d))
				}
				byName[n] = cn
				g.AddNode(cn)
			}
		}
		for n, ds := range s.edges {
			for _, d := range ds {
				if err := g.AddEdge(byName[d], byName[n]); err != nil {
					return res, err
				}
			}
		}
		pat, _ := label.ParseTargetPattern("", "//p:top")
		start := cpu()
		_, _, err := selection.New([]label.TargetPattern{pat}, nil, nil, selection.AllTargets).SelectTargetsForBuild(g)
		res.cpu = cpu() - start
		if err != nil {
			return res, err
		}
		res.work = counter
		for n, cn := range byName {
			if !cn.selected {
				return res, fmt.Errorf("node %s not selected", n)
			}
		}
	case "descendants", "ancestors":
		g, nodes, err := targetGraph(s, 0)
		if err != nil {
			return res, err
		}
		start := cpu()
		var out []model.BuildNode
		if c.Op == "descendants" {
			out = g.GetDescendants(nodes[tl("root")])
		} else {
			out = g.GetAncestors(nodes[tl("top")])
		}
		res.cpu = cpu() - start
		res.work = len(out)
		res.bound = v // each node at most once
		seen := map[label.TargetLabel]bool{}
		for _, n := range out {
			seen[n.GetLabel()] = true
		}
		if len(seen) != v-1 {
			return res, fmt.Errorf("%s returned %d distinct nodes, want %d", c.Op, len(seen), v-1)
		}
	case "buildgraph", "buildgraph-pair":
		start := cpu()
		_, _, err := targetGraph(s, map[string]int{"buildgraph": 1, "buildgraph-pair": 2}[c.Op])
		res.cpu = cpu() - start
		if err != nil {
			return res, err
		}
	case "criticalpath":
		g, _, err := targetGraph(s, 0)
		if err != nil {
			return res, err
		}
		start := cpu()
		cp, ok := g.FindCriticalPath()
		res.cpu = cpu() - start
		if !ok || len(cp.Nodes) == 0 {
			return res, fmt.Errorf("no critical path")
		}
	case "walk-fail", "walk-fail-partial":
		g, nodes, err := targetGraph(s, 0)
		if err != nil {
			return res, err
		}
		for _, n := range nodes {
			// partial: only the failing root is part of the build, everything above it is an unselected region
			if c.Op == "walk-fail" || n.GetLabel().Name == "root" {
				n.Select()
			}
		}
		calls := 0
		w := dag.NewWalker(g, func(ctx context.Context, n model.BuildNode) (dag.CacheResult, error) {
			calls++
			if n.GetLabel().Name == "root" {
				return dag.CacheMiss, errors.New("boom")
			}
			return dag.CacheHit, nil
		}, false)
		start := cpu()
		done := make(chan error, 1)
		go func() { _, err := w.Walk(context.Background()); done <- err }()
		select {
		case err := <-done:
			if err != nil {
				return res, err
			}
		case <-time.After(60 * time.Second):
			res.cpu = cpu() - start
			res.note = "walk did not finish within 60 s"
			return res, nil
		}
		res.cpu = cpu() - start
		if calls != 1 {
			return res, fmt.Errorf("callbacks=%d, want only the failing root", calls)
		}
	case "findcycle", "findcycle-back", "subgraph":
		nodes := model.BuildNodeMap{}
		for _, layer := range s.layers {
			for _, n := range layer {
				t := &model.Target{Label: tl(n), Command: "true"}
				t.Select()
				nodes[t.Label] = t
			}
		}
		g := dag.NewDirectedGraphFromMap(nodes)
		for n, ds := range s.edges {
			for _, d := range ds {
				if err := g.AddEdge(nodes[tl(d)], nodes[tl(n)]); err != nil {
					return res, err
				}
			}
		}
		if c.Op == "findcycle-back" {
			// the only cycle closes over the whole depth of the graph
			if err := g.AddEdge(nodes[tl("top")], nodes[tl("root")]); err != nil {
				return res, err
			}
		}
		start := cpu()
		switch c.Op {
		case "subgraph":
			sub := g.GetSelectedSubgraph()
			res.cpu = cpu() - start
			se := 0
			for _, l := range sub.GetOutEdges() {
				se += len(l)
			}
			if len(sub.GetNodes()) != v || se != e {
				return res, fmt.Errorf("subgraph of a fully selected graph has %d nodes/%d edges, want %d/%d", len(sub.GetNodes()), se, v, e)
			}
		default:
			cyc, found := g.FindCycle()
			res.cpu = cpu() - start
			if found != (c.Op == "findcycle-back") {
				return res, fmt.Errorf("FindCycle found=%v on %s", found, c.Op)
			}
			if found {
				// a cycle is a closed walk along edges: first == last, consecutive nodes joined by an out-edge
				if len(cyc) < 2 || cyc[0] != cyc[len(cyc)-1] {
					return res, fmt.Errorf("reported cycle is not closed (%d nodes)", len(cyc))
				}
				for i := 0; i+1 < len(cyc); i++ {
					ok := false
					for _, to := range g.GetOutEdges()[cyc[i].GetLabel()] {
						if to == cyc[i+1] {
							ok = true
						}
					}
					if !ok {
						return res, fmt.Errorf("reported cycle uses a non-edge %s -> %s", cyc[i].GetLabel(), cyc[i+1].GetLabel())
					}
				}
			}
		}
	case "walk-ok":
		g, nodes, err := targetGraph(s, 0)
		if err != nil {
			return res, err
		}
		for _, n := range nodes {
			n.Select()
		}
		w := dag.NewWalker(g, func(ctx context.Context, n model.BuildNode) (dag.CacheResult, error) { return dag.CacheHit, nil }, false)
		start := cpu()
		cm, err := w.Walk(context.Background())
		res.cpu = cpu() - start
		if err != nil || len(cm) != v {
			return res, fmt.Errorf("walk: err=%v completions=%d want %d", err, len(cm), v)
		}
	default:
		return res, fmt.Errorf("unknown op %s", c.Op)
	}
	return res, nil
}

func paths(c Case) float64 {
	p := 1.0
	switch c.Family {
	case "random":
		// exact count of root->top dependency paths by dynamic programming over the layers
		s := family(c)
		cnt := map[string]float64{"root": 1}
		for _, layer := range s.layers[1:] {
			for _, n := range layer {
				for _, d := range s.edges[n] {
					cnt[n] += cnt[d]
				}
			}
		}
		return cnt["top"]
	case "ladder":
		for i := 1; i < c.Depth; i++ {
			p *= float64(c.Width)
		}
		p *= float64(c.Width)
	case "dense":
		for i := 2; i < c.Depth; i++ {
			p *= 2
		}
	}
	return p
}

func run(c Case) (pbt.Result, error) {
	res := pbt.Result{Classes: []string{c.Family + ":" + c.Op}}
	if c.Family == "random" {
		c.Depth, c.Width = len(c.Widths), 0
	}
	r, err := runOp(c)
	if err != nil {
		return res, pbt.Fail("op-error:"+c.Op, "%s on %s(d=%d,w=%d): %v", c.Op, c.Family, c.Depth, c.Width, err)
	}
	res.NonTrivial = c.Family != "chain" && paths(c) >= 4096
	if r.work > r.bound {
		return res, pbt.Fail("path-enumeration:"+c.Op, "%s on %s(d=%d,w=%d): work counter %d exceeds %d (graph has %.0f dependency paths)", c.Op, c.Family, c.Depth, c.Width, r.work, r.bound, paths(c))
	}
	if c.Family != "chain" {
		bc := Case{Family: "chain", Depth: c.Depth, Width: max(1, c.Width), Op: c.Op}
		if c.Family == "random" {
			v, _ := family(c).size()
			bc.Depth, bc.Width = v-2, 1
		}
		base, berr := runOp(bc)
		if berr == nil && (r.note != "" || (!poisoned && r.cpu > cpuLimit && r.cpu > 50*base.cpu+time.Second)) {
			return res, pbt.Fail("cpu-blowup:"+c.Op, "%s on %s(d=%d,w=%d): %v CPU (%s) vs %v on a chain with the same node count; %.0f paths", c.Op, c.Family, c.Depth, c.Width, r.cpu, r.note, base.cpu, paths(c))
		}
	}
	return res, nil
}

var counterOps = []string{"select", "descendants", "ancestors"}
var timedOps = []string{"buildgraph", "buildgraph-pair", "buildgraph-pair", "criticalpath", "walk-fail", "walk-fail-partial", "walk-ok", "findcycle", "findcycle-back", "subgraph"}

func TestScaling(t *testing.T) {
	thorough := testingTier() == "thorough"
	pbt.Main(t, pbt.Spec[Case]{ID: "C19", WAL: true,
		Gen: func(t *rapid.T) Case {
			c := Case{Family: rapid.SampledFrom([]string{"ladder", "ladder", "dense", "chain", "random", "random"}).Draw(t, "family")}
			timed := rapid.Bool().Draw(t, "timed")
			if timed {
				c.Op = rapid.SampledFrom(timedOps).Draw(t, "op")
			} else {
				c.Op = rapid.SampledFrom(counterOps).Draw(t, "op")
			}
			switch c.Family {
			case "ladder":
				c.Width = rapid.IntRange(2, 3).Draw(t, "width")
				maxD := map[int]int{2: 16, 3: 10}[c.Width]
				if timed {
					maxD = map[int]int{2: 23, 3: 15}[c.Width] // <= 2^24 paths: enough for CPU time to tell, bounded memory if paths are enumerated
					if strings.HasPrefix(c.Op, "buildgraph") {
						maxD = map[int]int{2: 27, 3: 17}[c.Width] // graph analysis keeps no per-path memory: go deeper
					}
					if strings.HasPrefix(c.Op, "walk-") || strings.HasPrefix(c.Op, "findcycle") {
						// a per-path step of the walker costs some 50 ns: 2^24 paths stay under the CPU threshold, so go to
						// depths where path enumeration cannot finish at all (the 60 s watchdog reports it)
						maxD = map[int]int{2: 40, 3: 25}[c.Width]
					}
				} else if thorough {
					maxD = map[int]int{2: 20, 3: 12}[c.Width]
				}
				c.Depth = maxD - rapid.IntRange(0, maxD-2).Draw(t, "depth-below-max") // rapid favours small draws: bias towards deep graphs
			case "random":
				// irregular layers: the path count is the product of (roughly) density x width per layer
				maxL := 14
				if timed {
					maxL = 20
				}
				nl := maxL - rapid.IntRange(0, maxL-4).Draw(t, "layers-below-max")
				for i := 0; i < nl; i++ {
					c.Widths = append(c.Widths, rapid.IntRange(1, 4).Draw(t, "w"))
				}
				c.Density = rapid.SampledFrom([]int{30, 60, 100}).Draw(t, "density")
				c.Skip = rapid.SampledFrom([]int{0, 20, 60}).Draw(t, "skip")
				c.Seed = rapid.Uint32().Draw(t, "seed")
				for paths(c) > 1<<24 && len(c.Widths) > 2 { // bounded memory should paths be enumerated
					c.Widths = c.Widths[:len(c.Widths)-1]
				}
			case "dense":
				c.Width = 1
				maxD := 18
				if timed {
					maxD = 26
				} else if thorough {
					maxD = 22
				}
				c.Depth = maxD - rapid.IntRange(0, maxD-3).Draw(t, "n-below-max")
			default:
				c.Width = rapid.IntRange(1, 3).Draw(t, "width")
				c.Depth = rapid.IntRange(2, 200).Draw(t, "depth")
			}
			return c
		},
		Run: run})
}
