package c19

import (
	"encoding/json"
	"fmt"
	"os"
	"path/filepath"
	"sort"
	"strings"
	"testing"
	"time"

	"grog/verif/lib/histeng"
	"grog/verif/lib/pbt"

	"pgregory.net/rapid"
)

// Part "binary": the query and build commands of the real binary on ladders whose number of dependency paths (w^d,
// up to 2^48) rules out any per-path work. Every command must finish within 30 s (a correct one takes about half a
// second) and print exactly the expected labels, each once.

type BinCase struct {
	Width int    `json:"width"`
	Depth int    `json:"depth"`
	Op    string `json:"op"`
}

type bt struct {
	Name    string   `json:"name"`
	Command string   `json:"command"`
	Deps    []string `json:"dependencies,omitempty"`
	Bin     string   `json:"bin_output,omitempty"`
	Inputs  []string `json:"inputs,omitempty"`
}

var binOps = []string{"deps-t", "rdeps-t", "deps-t-test", "rdeps-t-test", "deps-t-bin", "build-partial-fail", "build-all-fail", "build-ok", "list", "owners"}

func runBin(c BinCase) (pbt.Result, error) {
	res := pbt.Result{Classes: []string{"op:" + c.Op}}
	base, err := os.MkdirTemp("", "c19bin-")
	if err != nil {
		return pbt.Result{Discard: true}, nil
	}
	defer os.RemoveAll(base)
	sb, err := histeng.NewSandbox(base, os.Getenv("GROG_BIN"))
	if err != nil {
		return pbt.Result{Discard: true}, nil
	}
	// package base: the root of everything (fails in the *-fail operations); package lad: the ladder on top of it
	fails := strings.HasSuffix(c.Op, "-fail")
	rootCmd := "true"
	if fails {
		rootCmd = "echo no >&2; exit 3"
	}
	baseTargets := []bt{{Name: "root", Command: rootCmd, Inputs: []string{"in.txt"}}}
	var lad []bt
	var all []string
	prev := []string{"//base:root"}
	for d := 0; d < c.Depth; d++ {
		var layer []string
		for w := 0; w < c.Width; w++ {
			n := fmt.Sprintf("n%02d_%d", d, w)
			t := bt{Name: n, Command: "true", Deps: append([]string{}, prev...)}
			lad = append(lad, t)
			layer = append(layer, "//lad:"+t.Name)
		}
		all = append(all, layer...)
		prev = layer
	}
	// on top: a tool with a bin output and two test targets (only tests may depend on tests, so they sit at the very top)
	lad = append(lad, bt{Name: "tool", Command: "printf '#!/bin/sh\\n' > tool.sh", Deps: prev, Bin: "tool.sh"},
		bt{Name: "top_test", Command: "true", Deps: append(append([]string{}, prev...), ":tool")},
		bt{Name: "side_test", Command: "true", Deps: prev})
	write := func(pkg string, ts []bt) {
		b, _ := json.Marshal(map[string]any{"targets": ts})
		_ = os.MkdirAll(filepath.Join(sb.WS, pkg), 0o755)
		_ = os.WriteFile(filepath.Join(sb.WS, pkg, "BUILD.json"), b, 0o644)
	}
	write("base", baseTargets)
	write("lad", lad)
	_ = os.WriteFile(filepath.Join(sb.WS, "base", "in.txt"), []byte("x"), 0o644)
	_ = os.WriteFile(filepath.Join(sb.WS, "grog.toml"), []byte("num_workers = 4\nlog_level = \"info\"\n"), 0o644)

	var args []string
	var want []string // expected stdout labels (nil: not checked)
	wantExit := 0
	switch c.Op {
	case "deps-t":
		args = []string{"deps", "-t", "//lad:top_test"}
		want = append(append([]string{}, all...), "//base:root", "//lad:tool")
	case "rdeps-t":
		args = []string{"rdeps", "-t", "//base:root"}
		want = append(append([]string{}, all...), "//lad:top_test", "//lad:side_test", "//lad:tool")
	case "deps-t-test":
		args = []string{"deps", "-t", "--target-type=test", "//lad:top_test"}
		want = []string{}
	case "rdeps-t-test":
		args = []string{"rdeps", "-t", "--target-type=test", "//base:root"}
		want = []string{"//lad:side_test", "//lad:top_test"}
	case "deps-t-bin":
		args = []string{"deps", "-t", "--target-type=bin_output", "//lad:top_test"}
		want = []string{"//lad:tool"}
	case "build-partial-fail":
		// only the failing root is selected; everything above it is an unselected part of the graph
		args = []string{"build", "//base/..."}
		wantExit = 1
	case "build-all-fail":
		args = []string{"build", "//..."}
		wantExit = 1
	case "build-ok":
		args = []string{"build", "//lad:tool"}
	case "list":
		args = []string{"list", "//lad/..."}
		want = append(append([]string{}, all...), "//lad:top_test", "//lad:side_test", "//lad:tool")
	case "owners":
		args = []string{"owners", "base/in.txt"}
		want = []string{"//base:root"}
	}
	r := sb.Grog("", 30*time.Second, args...)
	tail := func() string {
		out := r.Out
		if len(out) > 800 {
			out = "…" + out[len(out)-800:]
		}
		return fmt.Sprintf("\ngrog %v on a ladder of width %d and depth %d (%.3g dependency paths): exit=%d wall=%v\n%s", args, c.Width, c.Depth, pathsOf(c), r.Exit, r.Wall.Round(time.Millisecond), out)
	}
	if r.TimedOut {
		return res, pbt.Fail("binary-path-enumeration:"+c.Op, "the command did not finish within 30 s%s", tail())
	}
	if (r.Exit != 0) != (wantExit != 0) {
		return res, pbt.Fail("binary-wrong-exit:"+c.Op, "unexpected exit status%s", tail())
	}
	if want != nil {
		var got []string
		for _, ln := range strings.Split(r.Out, "\n") {
			ln = strings.TrimSpace(ln)
			if strings.HasPrefix(ln, "//") {
				got = append(got, ln)
			}
		}
		sort.Strings(got)
		sort.Strings(want)
		if strings.Join(got, "\n") != strings.Join(want, "\n") {
			return res, pbt.Fail("binary-wrong-answer:"+c.Op, "printed %d labels, expected %d (each once)\n got  %v\n want %v%s", len(got), len(want), clipList(got), clipList(want), tail())
		}
	}
	res.NonTrivial = pathsOf(c) >= 1e9
	return res, nil
}

func clipList(xs []string) []string {
	if len(xs) > 12 {
		return append(append([]string{}, xs[:12]...), fmt.Sprintf("… (%d more)", len(xs)-12))
	}
	return xs
}

func pathsOf(c BinCase) float64 {
	p := 1.0
	for i := 0; i < c.Depth; i++ {
		p *= float64(c.Width)
	}
	return p
}

func TestBinary(t *testing.T) {
	if os.Getenv("GROG_BIN") == "" {
		t.Skip("GROG_BIN not set")
	}
	pbt.Main(t, pbt.Spec[BinCase]{ID: "C19", Run: runBin,
		Gen: func(t *rapid.T) BinCase {
			c := BinCase{Width: rapid.IntRange(2, 3).Draw(t, "width"), Op: rapid.SampledFrom(binOps).Draw(t, "op")}
			maxD := map[int]int{2: 48, 3: 30}[c.Width]
			c.Depth = maxD - rapid.IntRange(0, maxD-4).Draw(t, "depth-below-max")
			return c
		}})
}
