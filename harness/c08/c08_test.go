// C08 — the remote cache is a write-through / read-through mirror shared across machines.
package c08

import (
	"bytes"
	"context"
	"errors"
	"fmt"
	"io"
	"os"
	"path/filepath"
	"sort"
	"strings"
	"sync"
	"testing"
	"time"

	"grog/internal/caching"
	"grog/internal/caching/backends"
	"grog/internal/config"
	"grog/internal/proto/gen"
	"grog/verif/lib/audit"
	"grog/verif/lib/fakes3"
	"grog/verif/lib/histeng"
	"grog/verif/lib/pbt"

	"pgregory.net/rapid"
)

// ------------------------------------------------------------------ part 1: wrapper + CAS over a faulty remote (API twin)

type remote struct {
	mu      sync.Mutex
	data    map[string][]byte
	failSet bool
	failGet bool
	failHas bool
}

func (m *remote) TypeName() string { return "fake" }
func (m *remote) Get(_ context.Context, path, key string) (io.ReadCloser, error) {
	m.mu.Lock()
	defer m.mu.Unlock()
	if m.failGet {
		return nil, errors.New("injected remote get fault")
	}
	b, ok := m.data[path+"/"+key]
	if !ok {
		return nil, os.ErrNotExist
	}
	return io.NopCloser(bytes.NewReader(b)), nil
}
func (m *remote) Set(_ context.Context, path, key string, content io.Reader) error {
	b, err := io.ReadAll(content)
	if err != nil {
		return err
	}
	m.mu.Lock()
	defer m.mu.Unlock()
	if m.failSet {
		return errors.New("injected remote put fault")
	}
	m.data[path+"/"+key] = b
	return nil
}
func (m *remote) Delete(_ context.Context, path, key string) error {
	m.mu.Lock()
	defer m.mu.Unlock()
	delete(m.data, path+"/"+key)
	return nil
}
func (m *remote) Exists(_ context.Context, path, key string) (bool, error) {
	m.mu.Lock()
	defer m.mu.Unlock()
	if m.failHas {
		return false, errors.New("injected remote head fault")
	}
	_, ok := m.data[path+"/"+key]
	return ok, nil
}

type brokenReader struct {
	data   []byte
	pos    int
	failAt int
}

func (b *brokenReader) Read(p []byte) (int, error) {
	if b.pos >= b.failAt {
		return 0, errors.New("injected read fault on the output file")
	}
	n := copy(p, b.data[b.pos:min(len(b.data), b.failAt)])
	b.pos += n
	return n, nil
}

type WOp struct {
	Kind  string `json:"kind"` // cas-write | get | drop-local | drop-remote | local-only-write | new-process | target-write | local-only-target
	Blob  int    `json:"blob"`
	Fault string `json:"fault,omitempty"` // "" | set | get | head
}

type WCase struct {
	Ops []WOp `json:"ops"`
}

var tmpRoot string

func blob(i int) (string, []byte) {
	data := []byte(fmt.Sprintf("blob-content-%d-%s", i, strings.Repeat("z", i*1000)))
	return fmt.Sprintf("digest%02d", i), data
}

func runWrapper(c WCase) (pbt.Result, error) {
	res := pbt.Result{}
	base, err := os.MkdirTemp(tmpRoot, "w-")
	if err != nil {
		return pbt.Result{Discard: true}, nil
	}
	defer os.RemoveAll(base)
	config.Global = config.WorkspaceConfig{Root: filepath.Join(base, "root"), WorkspaceRoot: filepath.Join(base, "ws")}
	ctx := context.Background()
	fsc, err := backends.NewFileSystemCache(ctx)
	if err != nil {
		return res, err
	}
	rem := &remote{data: map[string][]byte{}}
	wrapper := backends.NewRemoteWrapper(fsc, rem)
	cas := caching.NewCas(wrapper)
	localHas := func(d string) bool { ok, _ := fsc.Exists(ctx, "cas", d); return ok }
	remoteHas := func(d string) bool { rem.mu.Lock(); defer rem.mu.Unlock(); _, ok := rem.data["cas/"+d]; return ok }
	for i, op := range c.Ops {
		d, data := blob(op.Blob)
		rem.failSet, rem.failGet, rem.failHas = op.Fault == "set", op.Fault == "get", op.Fault == "head"
		if op.Fault != "" {
			res.NonTrivial = true
		}
		switch op.Kind {
		case "new-process":
			cas = caching.NewCas(wrapper) // the existence cache lives for one build only
		case "local-only-write":
			// the blob got into the local cache while no remote was configured
			if err := fsc.Set(ctx, "cas", d, bytes.NewReader(data)); err != nil {
				return res, err
			}
			res.Classes = append(res.Classes, "blob-local-before-remote")
		case "drop-local":
			// stores lose objects between builds, not during one (grog's in-build existence cache assumes that)
			_ = fsc.Delete(ctx, "cas", d)
			cas = caching.NewCas(wrapper)
		case "drop-remote":
			rem.mu.Lock()
			delete(rem.data, "cas/"+d)
			rem.mu.Unlock()
			cas = caching.NewCas(wrapper)
		case "local-only-target", "target-write":
			key := fmt.Sprintf("change%02d", op.Blob)
			tr := &gen.TargetResult{ChangeHash: key, OutputHash: "out-" + key}
			if op.Kind == "local-only-target" {
				// the result was recorded while no remote was configured
				if err := caching.NewTargetResultCache(fsc).Write(ctx, tr); err != nil {
					return res, err
				}
				res.Classes = append(res.Classes, "result-local-before-remote")
				continue
			}
			localOnly := false
			if ok, _ := fsc.Exists(ctx, "target", key); ok {
				rem.mu.Lock()
				_, inRemote := rem.data["target/"+key]
				rem.mu.Unlock()
				localOnly = !inRemote
			}
			if err := caching.NewTargetResultCache(wrapper).Write(ctx, tr); err == nil {
				rem.mu.Lock()
				_, ok := rem.data["target/"+key]
				rem.mu.Unlock()
				if !ok {
					return res, pbt.Fail("result-not-in-remote-after-successful-write", "op %d: TargetResultCache.Write(%s) succeeded (fault=%q, result was local-only before: %v) but the remote store does not have it", i, key, op.Fault, localOnly)
				}
				if localOnly {
					res.NonTrivial = true
				}
			}
		case "cas-write-source-fault":
			// the output file cannot be read to the end (I/O error half way): the write must fail and must not leave a
			// truncated object under the full digest in either store
			hadRemote, hadLocal := remoteHas(d), localHas(d)
			err := caching.NewCas(wrapper).Write(ctx, d, &brokenReader{data: data, failAt: len(data) / 2})
			res.NonTrivial = true
			res.Classes = append(res.Classes, "source-read-fault")
			if err == nil && !(hadRemote && hadLocal) {
				return res, pbt.Fail("write-succeeds-despite-source-fault", "op %d: Cas.Write(%s) returned nil although its reader failed half way", i, d)
			}
			rem.mu.Lock()
			got, ok := rem.data["cas/"+d]
			rem.mu.Unlock()
			if ok && !bytes.Equal(got, data) {
				return res, pbt.Fail("truncated-object-in-remote", "op %d: after a source read fault the remote holds %d bytes under digest %s (the blob has %d)", i, len(got), d, len(data))
			}
			if r, lerr := fsc.Get(ctx, "cas", d); lerr == nil {
				lb, _ := io.ReadAll(r)
				r.Close()
				if !bytes.Equal(lb, data) {
					return res, pbt.Fail("truncated-object-in-local", "op %d: after a source read fault the local cache holds %d bytes under digest %s (the blob has %d)", i, len(lb), d, len(data))
				}
			}
		case "cas-write":
			hadLocalOnly := localHas(d) && !remoteHas(d)
			err := cas.Write(ctx, d, bytes.NewReader(data))
			if err == nil {
				if hadLocalOnly {
					res.NonTrivial = true
				}
				// write-through: a blob reported as written is retrievable from the remote store
				rem.mu.Lock()
				got, ok := rem.data["cas/"+d]
				rem.mu.Unlock()
				if !ok {
					return res, pbt.Fail("blob-not-in-remote-after-successful-write", "op %d: Cas.Write(%s) succeeded (fault=%q, blob was local-only before: %v) but the remote store does not have the blob", i, d, op.Fault, hadLocalOnly)
				}
				if !bytes.Equal(got, data) {
					return res, pbt.Fail("wrong-content-in-remote", "op %d: remote blob %s has wrong content (%d bytes, want %d)", i, d, len(got), len(data))
				}
			}
		case "get":
			hadLocal, hadRemote := localHas(d), remoteHas(d)
			r, err := cas.Load(ctx, d) // through the same Cas instance a build uses (its existence cache must not be poisoned by reads)
			if err != nil {
				if hadLocal {
					return res, pbt.Fail("get-fails-although-local", "op %d: Get(%s) failed although the local cache has it: %v", i, d, err)
				}
				if hadRemote && op.Fault == "" {
					return res, pbt.Fail("get-fails-although-remote", "op %d: Get(%s) failed although the remote has it and no fault was injected: %v", i, d, err)
				}
				continue
			}
			got, _ := io.ReadAll(r)
			r.Close()
			if !bytes.Equal(got, data) {
				return res, pbt.Fail("wrong-content", "op %d: Get(%s) returned %d bytes, want %d", i, d, len(got), len(data))
			}
			if !hadLocal && !hadRemote {
				return res, pbt.Fail("get-invents-content", "op %d: Get(%s) succeeded although neither store had it", i, d)
			}
			if !localHas(d) {
				return res, pbt.Fail("read-through-did-not-fill-local", "op %d: Get(%s) was served from the remote but the local cache was not filled", i, d)
			}
			if !hadLocal {
				res.NonTrivial = true
				res.Classes = append(res.Classes, "read-through")
			}
		}
	}
	return res, nil
}

func TestWrapperOps(t *testing.T) {
	pbt.Main(t, pbt.Spec[WCase]{ID: "C08", Run: runWrapper,
		Gen: func(t *rapid.T) WCase {
			var c WCase
			for i := rapid.IntRange(2, 10).Draw(t, "nops"); i > 0; i-- {
				c.Ops = append(c.Ops, WOp{Kind: rapid.SampledFrom([]string{"cas-write", "cas-write", "get", "get", "get", "drop-local", "drop-local", "drop-remote", "local-only-write", "new-process", "target-write", "target-write", "local-only-target", "cas-write-source-fault"}).Draw(t, "kind"),
					Blob: rapid.IntRange(0, 3).Draw(t, "blob"), Fault: rapid.SampledFrom([]string{"", "", "", "set", "get", "head"}).Draw(t, "fault")})
			}
			return c
		}})
}

// ------------------------------------------------------------------ part 2: real binary, two machines, fake S3

type MStep struct {
	Kind    string         `json:"kind"`              // build | edit | wipe-local | remote-lose
	Machine int            `json:"machine,omitempty"` // 0 = A, 1 = B
	Remote  bool           `json:"remote,omitempty"`  // build: remote cache configured
	Faults  []fakes3.Fault `json:"faults,omitempty"`
	T, F, V int
}

type MCase struct {
	WS    histeng.WS `json:"workspace"`
	Steps []MStep    `json:"steps"`
}

const cap = 120 * time.Second

func remoteStore(srv *fakes3.Server) audit.Store {
	st := audit.Store{}
	for k, v := range srv.Objects() {
		// bkt/pfx/<workspace prefix>/{cas,target}/<key>
		parts := strings.Split(k, "/")
		if len(parts) >= 5 {
			st[parts[len(parts)-2]+"/"+parts[len(parts)-1]] = v
		}
	}
	return st
}

func runMachines(c MCase) (pbt.Result, error) {
	res := pbt.Result{}
	bin := os.Getenv("GROG_BIN")
	srv, err := fakes3.Start()
	if err != nil {
		return pbt.Result{Discard: true}, nil
	}
	defer srv.Close()
	base, err := os.MkdirTemp("", "c08-")
	if err != nil {
		return pbt.Result{Discard: true}, nil
	}
	defer os.RemoveAll(base)
	ws := filepath.Join(base, "checkout")
	var machines []*histeng.Sandbox
	for _, name := range []string{"A", "B", "P"} {
		m, err := histeng.NewSandboxAt(filepath.Join(base, name), ws, bin)
		if err != nil {
			return pbt.Result{Discard: true}, nil
		}
		m.ExtraEnv = srv.Env()
		machines = append(machines, m)
	}
	w := c.WS.Clone()
	all := histeng.BuildOpts{Patterns: []string{"//..."}}
	var log []string
	fail := func(sig, format string, args ...any) error {
		return pbt.Fail(sig, "%s\n--- history\n%s", fmt.Sprintf(format, args...), strings.Join(log, "\n"))
	}
	everRemote := false
	for i, st := range c.Steps {
		switch st.Kind {
		case "edit":
			if d := histeng.ApplyEdit(&w, histeng.Step{Kind: "edit-content", T: st.T, F: st.F, V: st.V}); d != "" {
				log = append(log, fmt.Sprintf("#%d %s", i, d))
			}
		case "wipe-local":
			m := machines[st.Machine%2]
			_ = os.RemoveAll(m.Root)
			_ = os.MkdirAll(m.Root, 0o755)
			log = append(log, fmt.Sprintf("#%d wipe local cache of machine %d", i, st.Machine%2))
		case "lose-local-blobs":
			m := machines[st.Machine%2]
			for _, cdir := range m.CacheDirs() {
				_ = os.RemoveAll(filepath.Join(cdir, "cas"))
			}
			m.WipeOutputs(w)
			log = append(log, fmt.Sprintf("#%d machine %d loses its local blobs (target results stay) and its build products", i, st.Machine%2))
			res.NonTrivial = true
			res.Classes = append(res.Classes, "local-blobs-lost")
		case "wipe-outputs":
			machines[st.Machine%2].WipeOutputs(w)
			log = append(log, fmt.Sprintf("#%d the build products in the workspace are removed", i))
		case "remote-lose":
			keys := srv.Keys()
			var cas []string
			for _, k := range keys {
				if strings.Contains(k, "/cas/") {
					cas = append(cas, k)
				}
			}
			if len(cas) > 0 {
				k := cas[st.V%len(cas)]
				srv.Delete(k)
				log = append(log, fmt.Sprintf("#%d remote loses %s", i, filepath.Base(k)))
				res.NonTrivial = true
				res.Classes = append(res.Classes, "remote-object-lost")
			}
		case "build":
			m := machines[st.Machine%2]
			w.Remote = st.Remote
			m.ForgetRendered()
			if st.Machine%2 == 1 {
				m.WipeOutputs(w) // machine B starts from a checkout without build products
			}
			if err := m.Sync(w); err != nil {
				return pbt.Result{Discard: true}, nil
			}
			srv.SetPlan(st.Faults)
			srv.TakeLog()
			r := m.Build(all, cap)
			reqs := srv.TakeLog()
			srv.SetPlan(nil)
			faulty := len(st.Faults) > 0
			log = append(log, fmt.Sprintf("#%d build on machine %d remote=%v faults=%v exit=%d started=%v requests=%d", i, st.Machine%2, st.Remote, st.Faults, r.Exit, histeng.SortedKeysInt(r.Started), len(reqs)))
			if st.Remote {
				everRemote = true
				if len(reqs) == 0 && len(r.Started) > 0 {
					return pbt.Result{Discard: true}, nil // the binary did not talk to the endpoint: environment problem, not a finding
				}
			}
			tail := fmt.Sprintf("\nexit=%d\n%s", r.Exit, clip(r.Out))
			if r.TimedOut {
				return res, fail("hang-under-remote-fault", "build did not finish within %v (faults %v)%s", cap, st.Faults, tail)
			}
			if strings.Contains(r.Out, "panic:") || strings.Contains(r.Out, "fatal error:") {
				return res, fail("C04:internal-crash", "grog crashed%s", tail)
			}
			if !faulty && r.Exit != 0 {
				return res, fail("fault-free-build-failed", "no fault was injected but the build failed%s", tail)
			}
			if faulty {
				res.NonTrivial = true
				res.Classes = append(res.Classes, "faulty-build")
			}
			expect, _ := w.Expect()
			selected := histeng.Select(w, all.Patterns)
			if r.Exit == 0 {
				if err := m.CompareOutputs(expect, selected); err != nil {
					return res, fail("wrong-bytes", "build exited 0 but outputs are wrong (faults %v): %v%s", st.Faults, err, tail)
				}
			}
			if st.Remote && r.Exit == 0 {
				// (1) every target result this build PUT references only blobs that are retrievable from the remote store
				full := remoteStore(srv)
				mine := audit.Store{}
				for k, v := range full {
					if strings.HasPrefix(k, "cas/") {
						mine[k] = v
					}
				}
				puts := 0
				for _, rq := range reqs {
					if rq.Method == "PUT" && rq.Status == 200 && strings.Contains(rq.Key, "/target/") {
						k := "target/" + filepath.Base(rq.Key)
						if v, ok := full[k]; ok {
							mine[k] = v
							puts++
						}
					}
				}
				if ps := audit.Check(mine); len(ps) > 0 {
					var msgs []string
					for _, p := range ps {
						msgs = append(msgs, p.Kind+": "+p.Msg)
					}
					return res, fail("remote:"+ps[0].Kind, "this build wrote %d target results to the remote store; the store is inconsistent for them:\n%s%s", puts, strings.Join(msgs, "\n"), tail)
				}
			}
			if st.Remote && r.Exit == 0 && !faulty {
				// (2) another machine with an empty local cache restores what this build wrote, without executing it
				p := machines[2]
				_ = os.RemoveAll(p.Root)
				_ = os.MkdirAll(p.Root, 0o755)
				p.ForgetRendered()
				p.WipeOutputs(w)
				_ = p.Sync(w)
				pr := p.Build(all, cap)
				log = append(log, fmt.Sprintf("#%d   probe machine: exit=%d started=%v", i, pr.Exit, histeng.SortedKeysInt(pr.Started)))
				if pr.Exit != 0 || pr.TimedOut {
					return res, fail("probe-machine-build-failed", "a machine with an empty local cache fails to build from the shared remote: exit=%d\n%s", pr.Exit, clip(pr.Out))
				}
				for l := range r.Started {
					if pr.Started[l] > 0 {
						return res, fail("not-shared-across-machines", "%s was executed and written by machine %d, but a second machine with the same workspace identity executed it again instead of restoring it\n%s", l, st.Machine%2, clip(pr.Out))
					}
				}
				if err := p.CompareOutputs(expect, selected); err != nil {
					return res, fail("wrong-bytes", "the second machine restored wrong outputs: %v", err)
				}
				// ... filling its local cache as it reads: every object it fetched is now in its local cache, intact
				preqs := srv.TakeLog()
				for _, cdir := range p.CacheDirs() {
					stl, err := audit.LoadDir(cdir)
					if err != nil {
						continue
					}
					for _, rq := range preqs {
						if rq.Method != "GET" || rq.Status != 200 {
							continue
						}
						parts := strings.Split(rq.Key, "/")
						k := parts[len(parts)-2] + "/" + parts[len(parts)-1]
						local, ok := stl[k]
						if !ok {
							return res, fail("read-through-did-not-fill-local", "the second machine fetched %s from the remote but its local cache does not hold it afterwards", k)
						}
						if !bytes.Equal(local, full(srv, rq.Key)) {
							return res, fail("local-copy-differs-from-remote", "the second machine's local copy of %s differs from the remote object", k)
						}
					}
				}
				if len(r.Started) > 0 {
					res.NonTrivial = true
					res.Classes = append(res.Classes, "second-machine-restore")
				}
			}
		}
	}
	if !everRemote {
		return pbt.Result{Discard: true}, nil
	}
	sort.Strings(res.Classes)
	return res, nil
}

func full(srv *fakes3.Server, key string) []byte { return srv.Objects()[key] }

func clip(s string) string {
	if len(s) > 1500 {
		return "…" + s[len(s)-1500:]
	}
	return s
}

func TestMachines(t *testing.T) {
	if os.Getenv("GROG_BIN") == "" {
		t.Skip("GROG_BIN not set")
	}
	pbt.Main(t, pbt.Spec[MCase]{ID: "C08", Run: runMachines,
		Gen: func(t *rapid.T) MCase {
			c := MCase{WS: histeng.GenWS(t, histeng.Profile{MaxTargets: 5, DirOutputs: true, BigOutputs: false, Workers: []int{2, 4}})}
			for i := range c.WS.Targets {
				c.WS.Targets[i].Shared = rapid.IntRange(0, 2).Draw(t, "shared") == 0
			}
			n := rapid.IntRange(2, 7).Draw(t, "nsteps")
			for i := 0; i < n; i++ {
				k := rapid.SampledFrom([]string{"build", "build", "build", "edit", "wipe-local", "remote-lose", "lose-local-blobs", "cross-restore-with-truncation", "offline-then-online"}).Draw(t, "kind")
				if k == "offline-then-online" {
					// a machine fills its local cache with the remote switched off, then builds with the remote on: what it
					// restores comes from blobs the remote has never seen, what it executes next to that (after an edit) may
					// produce some of the same bytes, and everything it publishes must still be complete in the remote store
					m := rapid.IntRange(0, 1).Draw(t, "machine")
					c.Steps = append(c.Steps, MStep{Kind: "build", Machine: m},
						MStep{Kind: "edit", T: rapid.IntRange(0, 7).Draw(t, "t"), F: rapid.IntRange(0, 7).Draw(t, "f"), V: rapid.IntRange(0, 7).Draw(t, "v")})
					if rapid.IntRange(0, 3).Draw(t, "wipe") > 0 {
						c.Steps = append(c.Steps, MStep{Kind: "wipe-outputs", Machine: m})
					}
					c.Steps = append(c.Steps, MStep{Kind: "build", Machine: m, Remote: true})
					continue
				}
				if k == "cross-restore-with-truncation" {
					// machine A publishes, machine B (empty local cache) restores while the n-th download breaks off half way
					c.Steps = append(c.Steps, MStep{Kind: "build", Machine: 0, Remote: true}, MStep{Kind: "wipe-local", Machine: 1},
						MStep{Kind: "build", Machine: 1, Remote: true, Faults: []fakes3.Fault{{Method: "GET", Nth: rapid.IntRange(0, 6).Draw(t, "nth"), Action: "truncate"}}})
					continue
				}
				st := MStep{Kind: k, Machine: rapid.IntRange(0, 1).Draw(t, "machine"), T: rapid.IntRange(0, 7).Draw(t, "t"), F: rapid.IntRange(0, 7).Draw(t, "f"), V: rapid.IntRange(0, 7).Draw(t, "v")}
				if k == "build" {
					st.Remote = rapid.IntRange(0, 3).Draw(t, "remote") > 0
					if st.Remote && rapid.IntRange(0, 2).Draw(t, "faulty") == 0 {
						for j := rapid.IntRange(1, 2).Draw(t, "nfaults"); j > 0; j-- {
							st.Faults = append(st.Faults, fakes3.Fault{Method: rapid.SampledFrom([]string{"GET", "PUT", "HEAD"}).Draw(t, "method"), Nth: rapid.IntRange(0, 6).Draw(t, "nth"),
								Action: rapid.SampledFrom([]string{"500", "404", "truncate", "reset"}).Draw(t, "action")})
						}
					}
				}
				c.Steps = append(c.Steps, st)
			}
			c.Steps = append(c.Steps, MStep{Kind: "build", Machine: rapid.IntRange(0, 1).Draw(t, "lastmachine"), Remote: true})
			return c
		}})
}

func TestMain(m *testing.M) {
	dir, err := os.MkdirTemp("", "c08-")
	if err != nil {
		panic(err)
	}
	tmpRoot = dir
	code := m.Run()
	_ = os.RemoveAll(dir)
	os.Exit(code)
}
