#!/usr/bin/env python3
"""keep_seed.py <Cxx> <n> : confirm the sub-agent's seeded change n for property Cxx in a scratch worktree and,
if confirmed, store it as /verif/seeded/<Cxx>-<n>/ (patch.diff, demo/, meta.json)."""
import json, os, shutil, subprocess, sys
pid, n = sys.argv[1], sys.argv[2]
srcroot = sys.argv[3] if len(sys.argv) > 3 else "/tmp/seed-out"
prefix = sys.argv[4] if len(sys.argv) > 4 else ""
src = "%s/%s/%s" % (srcroot, pid, n)
dst = "/verif/seeded/%s%s-%s" % (prefix, pid, n)
os.makedirs(dst, exist_ok=True)
patch = os.path.join(dst, "patch.diff")
if not os.path.exists(patch):
    shutil.copy(os.path.join(src, "patch.diff"), patch)
out = subprocess.run(["/verif/confirm_seed.sh", "%s%s-%s" % (prefix, pid, n), patch, os.path.join(src, "demo")], capture_output=True, text=True)
print(out.stdout.strip(), out.stderr.strip()[-500:])
try:
    verdict = json.loads(out.stdout.strip().splitlines()[-1])
except Exception:
    print("no verdict"); sys.exit(1)
ok = verdict["demo_on_clean_rc"] == 0 and verdict["apply_rc"] == 0 and verdict["build_rc"] == 0 and verdict["existing_tests_rc"] == 0 and verdict["demo_on_patched_rc"] != 0
meta = json.load(open(os.path.join(src, "meta.json")))
meta["confirmed_by_me"] = verdict
meta["confirmed"] = ok
meta["what_i_ran"] = "confirm_seed.sh: scratch worktree of /repo HEAD under /tmp/confirm; demo/run.sh on clean tree (must pass), git apply patch.diff, go build ./..., existing suite (internal/... minus completions), demo/run.sh on patched tree (must fail)"
meta.setdefault("detected_by", {})
json.dump(meta, open(os.path.join(dst, "meta.json"), "w"), indent=1)
if os.path.isdir(os.path.join(dst, "demo")):
    shutil.rmtree(os.path.join(dst, "demo"))
shutil.copytree(os.path.join(src, "demo"), os.path.join(dst, "demo"))
print("CONFIRMED" if ok else "NOT CONFIRMED", dst)
