#!/bin/sh
# Runs the thorough tier of every check sequentially and prints one line per check (development aid; evidence
# that is committed must come from runs in /verif against /repo).
cd "$(dirname "$0")"
ids=${1:-"C17 C12 C09 C06 C11 C19 C16 C03 C04 C10 C01 C02 C05 C13 C14 C15 C20 C18 C07 C08"}
for id in $ids; do
  start=$(date +%s)
  out=$(./check $id --tier thorough 2>&1); rc=$?
  end=$(date +%s)
  echo "$id rc=$rc $((end-start))s $(echo "$out" | grep -E '^(OK|VIOLATION|INCONCLUSIVE|KNOWN)' | head -4 | cut -c1-220 | tr '\n' ' ')"
done
