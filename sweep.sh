#!/bin/sh
# sweep.sh "<seeds>" ["<ids>"] — quick tier of every check at several VERIF_SEED values (development aid: shows
# false alarms and budget problems on the unchanged tree; evidence/ is left as the last run wrote it).
cd "$(dirname "$0")"
seeds=${1:-"1 2 3"}
ids=${2:-"C01 C02 C03 C04 C05 C06 C07 C08 C09 C10 C11 C12 C13 C14 C15 C16 C17 C18 C19 C20"}
for s in $seeds; do
  for id in $ids; do
    start=$(date +%s)
    out=$(VERIF_SEED=$s ./check $id 2>&1); rc=$?
    end=$(date +%s)
    echo "seed=$s $id rc=$rc $((end-start))s $(echo "$out" | grep -E '^(OK|VIOLATION|INCONCLUSIVE|KNOWN)' | head -4 | cut -c1-200 | tr '\n' ' ')"
  done
done
