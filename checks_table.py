"""Per-property configuration for ./check: parts (engines), budgets per tier,
non-triviality rule, assumptions. Counts are case counts (never time limits);
`cap` is only the wall-clock guard after which a shard is declared inconclusive."""

PROPS = {}

PROPS["C17"] = {
    "level": "exploration",
    "rule": ("enum: every string of length <= L over {a,b,/,:,.} x current package in {'',a,a/b}, parsed as label and as pattern; "
             "random: strings assembled from grammar pieces over a wider alphabet. Non-trivial = accepted by a parser and not a plain "
             "//pkg:name (shorthand, relative, recursive, :all, :..., odd spellings); distinct by (current package, string)."),
    "assumptions": [
        "meaning is asserted only for strings in the grammar of docs reference/labels.md; all other accepted strings must only round-trip and not panic",
        "match sets are compared over a fixed universe of 70 labels (10 packages x 7 names) chosen for prefix/sibling boundaries",
    ],
    "exhaustive_parts": ["enum"],
    "exhaustive_scope": "part 'enum' enumerates the stated string space completely (L=6 quick, L=8 thorough); part 'random' is sampled",
    "nt_floor": 0.05,
    "parts": [
        {"name": "enum", "pkg": "c17", "test": "TestEnum", "kind": "enum",
         "quick": {"shards": 4, "env": {"VERIF_MAXLEN": 6}, "cap": 600},
         "thorough": {"shards": 16, "env": {"VERIF_MAXLEN": 8}, "cap": 3600}},
        {"name": "random", "pkg": "c17", "test": "TestRandom",
         "quick": {"shards": 4, "checks": 40000, "cap": 600},
         "thorough": {"shards": 16, "checks": 3000000, "cap": 3600}},
    ],
}
