"""Per-property configuration for ./check: parts (engines), budgets per tier,
non-triviality rule, assumptions. Counts are case counts (never time limits);
`cap` is only the wall-clock guard after which a shard is declared inconclusive."""

PROPS = {}

PROPS["C17"] = {
    "level": "exploration",
    "rule": ("enum: every string of length <= L over {a,b,/,:,.} x current package in {'',a,a/b,.a}, parsed as label and as pattern; "
             "random: strings assembled from grammar pieces over a wider alphabet. Non-trivial = accepted by a parser and not a plain "
             "//pkg:name (shorthand, relative, recursive, :all, :..., odd spellings); distinct by (current package, string)."),
    "assumptions": [
        "meaning is asserted only for strings in the grammar of docs reference/labels.md; all other accepted strings must only round-trip and not panic",
        "match sets are compared over a fixed universe of 105 labels (15 packages x 7 names) chosen for prefix/sibling boundaries",
    ],
    "exhaustive_parts": ["enum"],
    "exhaustive_scope": "part 'enum' enumerates the stated string space completely (L=6 quick, L=8 thorough); part 'random' is sampled",
    "nt_floor": 0.05,
    "parts": [
        {"name": "enum", "pkg": "c17", "test": "TestEnum", "kind": "enum",
         "quick": {"shards": 4, "env": {"VERIF_MAXLEN": 6}, "cap": 600},
         "thorough": {"shards": 16, "env": {"VERIF_MAXLEN": 8}, "cap": 3600}},
        {"name": "random", "pkg": "c17", "test": "TestRandom",
         "quick": {"shards": 4, "checks": 40000, "cap": 600},
         "thorough": {"shards": 16, "checks": 3000000, "cap": 3600}},
        {"name": "fuzz", "pkg": "c17", "test": "FuzzC17", "kind": "fuzz",
         "quick": {"skip": True},
         "thorough": {"fuzztime": "120s", "cap": 900}},
    ],
}

PROPS["C09"] = {
    "level": "exploration",
    "rule": ("pairs: a generated target state A (label, command, declared inputs with real files, outputs, dependency digests, fingerprint, platform) and a state B derived by a named relation; "
             "must-equal relations: permutations of every list / map insertion order, checkout location, mtimes, bystander files, platform under multiplatform-cache; "
             "must-differ relations: every single-component edit and a concatenation-preserving boundary shift for every pair of adjacent components. "
             "loaded: one package loaded twice through loading.LoadPackages from renderings that differ only in declaration order of (overlapping) input patterns, excludes, outputs, fingerprint entries, file creation order, BUILD format, location, workers - keys must be equal. "
             "alias: dependant whose dependency is declared directly or through 1-3 aliases, dependency output digest h1 vs h2. "
             "Non-trivial = a non-identity permutation/relocation or a boundary shift (pairs), an alias chain >= 1 (alias); distinct by full case."),
    "assumptions": [
        "keys are compared under xxh3 and sha256; a must-differ pair fails only when equal under both (encoding collision)",
        "duplicate entries in an input list and declared-but-absent inputs that differ only by name are not generated (the statement speaks of a set of (path, content) pairs)",
    ],
    "nt_floor": 0.3,
    "parts": [
        {"name": "pairs", "pkg": "c09", "test": "TestPairs",
         "quick": {"shards": 8, "checks": 24000, "cap": 900},
         "thorough": {"shards": 16, "checks": 2000000, "cap": 7200}},
        {"name": "loaded", "pkg": "c09", "test": "TestLoaded",
         "quick": {"shards": 4, "checks": 3000, "cap": 600},
         "thorough": {"shards": 8, "checks": 200000, "cap": 3600}},
        {"name": "alias", "pkg": "c09", "test": "TestAliasDeps",
         "quick": {"shards": 1, "checks": 2000, "cap": 300},
         "thorough": {"shards": 2, "checks": 100000, "cap": 1800}},
    ],
}

PROPS["C06"] = {
    "level": "exploration",
    "rule": ("roundtrip: 1-4 non-overlapping outputs (file outputs incl. bin_output, dir:: outputs with generated trees of depth<=4: duplicate/empty/1-byte-different contents, exec bits, "
             "relative/dangling/escaping symlinks, empty directories, odd names) are cached through output.Registry.WriteOutputs, each destination is put into a generated prior state "
             "(identical, absent, parent absent, modified, truncated, longer, exec flipped, stale file/dir/symlink, removed child, file where the directory should be, non-empty directory where the file should be, symlink to a file or directory OUTSIDE the workspace or dangling symlink at the output path), then Registry.LoadOutputs; "
             "recursive listings (type, exec bit, size, sha256, link target) before caching and after restore must be equal, Load must succeed and nothing outside the workspace may have been written through a link. "
             "roundtrip-race: the same cases with the harness and grog built with the race detector (restores run one task per output and one goroutine per file: a report with grog frames is a violation). "
             "binary-run: real binary; a bin_output target is built, its workspace copy deleted / its directory removed / truncated / chmod-ed, then `grog run <label>` must restore it without re-running the command and execute it (exit 0, expected text printed, exec bit set). "
             "Non-trivial = roundtrip: some output carries an exec file, symlink or empty directory AND some destination prior state is not 'identical'; binary-run: the prior state is not 'intact'; distinct by full case."),
    "assumptions": [
        "permission bits other than the executable bit, directory modes, mtimes and ownership are not compared",
        "the quantifier of the property (all prior states of the destination path) is taken to include the mirror images of the listed states: a directory or a symlink where a file output should be, a symlink where a directory output should be",
    ],
    "nt_floor": 0.2,
    "parts": [
        {"name": "roundtrip", "pkg": "c06", "test": "TestRoundTrip",
         "quick": {"shards": 8, "checks": 4000, "cap": 900},
         "thorough": {"shards": 16, "checks": 100000, "cap": 7200}},
        {"name": "roundtrip-race", "pkg": "c06", "test": "TestRoundTrip", "race": True,
         "quick": {"shards": 4, "checks": 600, "cap": 900},
         "thorough": {"shards": 8, "checks": 12000, "cap": 7200}},
        {"name": "binary-run", "pkg": "c06", "test": "TestBinaryRun", "binary": True,
         "quick": {"shards": 16, "checks": 48, "cap": 900, "shrinktime": "30s"},
         "thorough": {"shards": 32, "checks": 4000, "cap": 7200, "shrinktime": "60s"}},
    ],
}

PROPS["C12"] = {
    "level": "exploration",
    "rule": ("api: generated graph (1-9 targets over 5 packages incl. prefix siblings, test targets, tags, platforms, 35% of edges through 1-2 aliases, free aliases) + invocation "
             "(0-3 patterns from the documented grammar relative to a generated current package, tag/exclude-tag sets, build vs test, host platform, --all-platforms) run through "
             "selection.SelectTargetsForBuild; selected set, selected-target count, platform-skipped count and error/no-error must equal an independent reference selector. "
             "binary: the same cases through the real binary (grog build / grog test from the generated current package with --tag/--exclude-tag/--platform/--all-platforms, cold cache): the commands that ran (trace lines) must be exactly the reference selection; platform errors and empty selections must fail before anything runs. "
             "Non-trivial = platform error, or an alias inside a closure of size>1, or a tag filter active on a non-empty selection, or platform-skipped seeds; distinct by full case."),
    "assumptions": [
        "an alias matched by a pattern whose aliased target fails the tag/exclude-tag/type filters may or may not seed the selection (docs only say 'building an alias builds its actual'): both outcomes accepted, cases counted in class alias-seed-fails-target-filters",
        "pattern strings are drawn from the documented grammar (C17 covers the rest)",
    ],
    "nt_floor": 0.2,
    "parts": [
        {"name": "api", "pkg": "c12", "test": "TestSelection",
         "quick": {"shards": 8, "checks": 24000, "cap": 600},
         "thorough": {"shards": 16, "checks": 1200000, "cap": 7200}},
        {"name": "binary", "pkg": "c12", "test": "TestBinary", "binary": True,
         "quick": {"shards": 24, "checks": 120, "cap": 900, "shrinktime": "30s"},
         "thorough": {"shards": 32, "checks": 10000, "cap": 7200, "shrinktime": "60s"}},
    ],
}

PROPS["C11"] = {
    "level": "exploration",
    "rule": ("graphs: generated graph (1-6 targets over packages '',a,a/b,ab; aliases on 40% of edges; BUILD.json/BUILD.yaml split) with output spellings (x ./x sub/../x ../x ../../x /abs dir::d dir::d/ dir::d/e d/f docker::img ...), "
             "deliberately shared output paths between random pairs, inputs incl. escaping spellings, plus one structural injection (undefined label, dangling alias, self-dependency, alias cycle, back edge with/without cycle possibly through an alias, "
             "duplicate label in one file / across files / target-vs-alias, test or testonly dependency direct or through an alias); written to disk and run through LoadPackages->BuildNodeMapFromPackages->BuildGraph->CheckTargetConstraints; "
             "accept/reject must equal the reference validator in both directions. binary: the same generator through the real binary: `grog check` exit status must equal the reference verdict, and for rejected graphs `grog build //...` must exit non-zero with a message having executed nothing (commands would log to a trace file). pairs: exhaustive enumeration of two single-output targets over 3 packages x 23 spellings each x {independent, ordered, ordered through alias}. "
             "Non-trivial = graph has an alias and a defect, or contains a near-miss (overlap that is legal because ordered, '..' output that stays inside the workspace, back edge without cycle); distinct by full case."),
    "assumptions": [
        "rejections the property does not list are kept out of the generator: test target without command, non-file bin_output, two overlapping outputs of one target",
        "a file output nested below another target's *file* output path is not a listed overlap and is treated as valid",
    ],
    "exhaustive_parts": ["pairs"],
    "exhaustive_scope": "part 'pairs' enumerates its stated two-target space completely; part 'graphs' is sampled",
    "nt_floor": 0.1,
    "parts": [
        {"name": "graphs", "pkg": "c11", "test": "TestGraphs",
         "quick": {"shards": 8, "checks": 12000, "cap": 900},
         "thorough": {"shards": 16, "checks": 400000, "cap": 7200}},
        {"name": "binary", "pkg": "c11", "test": "TestBinary", "binary": True,
         "quick": {"shards": 16, "checks": 160, "cap": 900, "shrinktime": "30s"},
         "thorough": {"shards": 32, "checks": 12000, "cap": 7200, "shrinktime": "60s"}},
        {"name": "pairs", "pkg": "c11", "test": "TestEnumPairs", "kind": "enum",
         "quick": {"shards": 8, "cap": 900},
         "thorough": {"shards": 8, "cap": 900}},
    ],
}

PROPS["C19"] = {
    "level": "exploration",
    "rule": ("scaling: (family, depth, width, operation) with family in ladder(d,w) [w^d paths], dense DAG(n) [2^(n-2) paths], irregular layered DAG (4-20 layers of width 1-4, edge density 30/60/100 %, skip edges, derived from a generated 32-bit value; paths counted exactly), chain; operation in {select-for-build, descendants, ancestors} decided by deterministic work counters "
             "(Select() calls <= 4(V+E); traversal result length <= V) and {BuildGraph with ordered overlapping writers, critical path, Walk with failing root, Walk all-success, FindCycle on the acyclic graph and with one cycle closing over the whole depth (the reported cycle must be a closed walk along edges), GetSelectedSubgraph} decided by process CPU time and a 90 s watchdog "
             "(> 2 s and > 50x the chain with the same node count; a correct run is < 10 ms). "
             "binary: the real binary on a ladder workspace (width 2-3, depth up to 48/30, i.e. up to 2^48 paths; a failing or succeeding root package, a bin tool and two test targets on top): "
             "deps -t / rdeps -t unfiltered and with --target-type=test|bin_output, list, owners, a partial build of only the failing root (the ladder above it is unselected), a full keep-going build with the failing root, a successful build of the top; "
             "each must finish within 30 s with the expected exit status and print exactly the expected labels, each once. "
             "Non-trivial = non-chain family with >= 4096 dependency paths (binary: >= 1e9); distinct by full case."),
    "assumptions": [
        "nothing is proved about complexity; the check separates path enumeration from node/edge traversal on families where they differ by >= 3 orders of magnitude",
        "CPU time (getrusage) rather than wall-clock is used for the timed operations; path counts are capped at 2^24 so that an exponential implementation shows as seconds of CPU, not as memory exhaustion",
    ],
    "nt_floor": 0.3,
    "parallel": 4,
    "parts": [
        {"name": "binary", "pkg": "c19", "test": "TestBinary", "binary": True,
         "quick": {"shards": 8, "checks": 40, "cap": 900, "shrinktime": "60s"},
         "thorough": {"shards": 16, "checks": 2000, "cap": 7200, "shrinktime": "120s"}},
        {"name": "scaling", "pkg": "c19", "test": "TestScaling",
         "quick": {"shards": 4, "checks": 400, "cap": 900},
         "thorough": {"shards": 8, "checks": 40000, "cap": 7200}},
    ],
}

PROPS["C16"] = {
    "level": "exploration",
    "rule": ("formats: an abstract package (1-4 targets with commands, label-form dependencies, glob inputs with excludes, typed outputs, bin_output, output checks, tags, fingerprint, env, platforms, timeout; aliases; default platforms; "
             "strings drawn from plain and YAML/JSON/Starlark-hostile tokens) rendered to BUILD.json, BUILD.yaml, BUILD.star and - for packages restricted to annotation fields with `make goal` commands - Makefile annotations, each loaded "
             "in its own workspace with identical source files through loading.LoadPackages; loaded targets/aliases must be pairwise identical. "
             "determinism: 1-6 packages, each possibly split over several BUILD files of different formats (targets in one, aliases in another), loaded 12 times with shuffled file-creation orders and 1-16 workers; identical result and no declared node lost. "
             "robust: 1-4 byte-level mutations (bit flip, truncation, deletion, line duplication, splice of hostile constants) of a rendering per loader incl. *.grog.sh; the loader must return a value or an error (no panic, fatal error or hang; each shard is a child process with a write-ahead case file). "
             "Non-trivial = formats: accepted package with >=2 targets and an exclude glob, fingerprint, alias or Makefile rendering; determinism: a multi-file package among >=2 packages; robust: the mutated file is rejected with an error or loads to a non-empty package."),
    "assumptions": [
        "a YAML rendering is used only if yaml.v3 itself reads it back to the same abstract package",
        "Starlark has no package-level default_platforms: the Starlark rendering spells the default out per target",
        "a Starlark program that merely runs long (> 20 s) is discarded, not reported",
    ],
    "nt_floor": 0.2,
    "parts": [
        {"name": "formats", "pkg": "c16", "test": "TestFormats",
         "quick": {"shards": 6, "checks": 1800, "cap": 900},
         "thorough": {"shards": 16, "checks": 60000, "cap": 7200}},
        {"name": "determinism", "pkg": "c16", "test": "TestDeterminism",
         "quick": {"shards": 4, "checks": 300, "cap": 900},
         "thorough": {"shards": 8, "checks": 8000, "cap": 7200}},
        {"name": "robust", "pkg": "c16", "test": "TestRobust",
         "quick": {"shards": 6, "checks": 18000, "cap": 900},
         "thorough": {"shards": 16, "checks": 600000, "cap": 7200}},
        {"name": "fuzz", "pkg": "c16", "test": "FuzzLoaders", "kind": "fuzz",
         "quick": {"skip": True},
         "thorough": {"fuzztime": "240s", "cap": 1800}},
    ],
}

PROPS["C03"] = {
    "level": "exploration",
    "rule": ("bubble: generated DAG (2-40 nodes; random, chain, repeated diamonds, fan-in/out, complete-bipartite layers), selection closed under dependencies, num_workers 1-8, per-node virtual latency from {0,1,2,3,10 ms}; "
             "the real dag.Walker drives the real TaskWorkerPool inside a testing/synctest bubble, so completion order is a function of the generated latencies. Every command start must come after a successful end of each transitive dependency, "
             "at most one start per node, running commands <= num_workers at every prefix of the event log, unselected nodes never run, finished nodes are marked completed. race: the same on the real scheduler under the race detector with zero/microsecond latencies and GOMAXPROCS in {1,2,4,16}. binary: the real grog binary on wide graphs of sleeping commands with 1-3 workers (two builds, the second partially cached): S/E trace lines written by the commands give the same three invariants. "
             "Non-trivial = some selected node joins >=2 dependencies with different latencies AND num_workers is below the width of some layer; distinct by full case."),
    "assumptions": [
        "interleavings between goroutines at the same virtual instant are the Go scheduler's choice: sampled (also under -race), not enumerated",
        "start/end events are logged inside the task, so the running count is a lower bound of true concurrency (cannot raise a false alarm)",
    ],
    "nt_floor": 0.05,
    "parts": [
        {"name": "bubble", "pkg": "c03", "test": "TestBubble",
         "quick": {"shards": 8, "checks": 4000, "cap": 900},
         "thorough": {"shards": 16, "checks": 80000, "cap": 7200}},
        {"name": "race", "pkg": "c03", "test": "TestRace", "race": True,
         "quick": {"shards": 4, "checks": 400, "cap": 900},
         "thorough": {"shards": 8, "checks": 6000, "cap": 7200}},
        {"name": "binary", "pkg": "c03", "test": "TestBinary", "binary": True,
         "quick": {"shards": 24, "checks": 144, "cap": 900, "shrinktime": "60s"},
         "thorough": {"shards": 32, "checks": 4000, "cap": 7200, "shrinktime": "120s"}},
    ],
}

PROPS["C04"] = {
    "level": "fault_enumeration",
    "rule": ("bubble: C03's generator plus failing subsets (10% per node), fail-fast on/off, optional external cancel at a generated virtual time, mostly-zero latencies, 5% of cases with up to 4000 nodes; Walk must return (a hang is a synctest deadlock report), "
             "completions only for selected nodes, and in keep-going mode without cancel every selected node is succeeded, failed or downstream of a failure. race: keep-going failure patterns on the real scheduler under -race (up to 3000 nodes), the returned completion map is iterated immediately like RunBuild does; race-cancel: fail-fast and external cancel under -race with the walker alone (tasks behind a plain semaphore instead of grog's pool, whose shutdown closes a channel under concurrent sends on purpose). stress: all patterns incl. fail-fast and cancel on the real scheduler without the race detector. "
             "restore-faults: outputs (flat directory, generated trees, file outputs) cached through the real registry; for EVERY cache blob x {deleted, truncated, emptied}, up to 40 pairs of deletions and 'all deleted', LoadOutputs under a 30 s watchdog must return. "
             "large: real-binary builds of 60-600 trivial targets (independent, one chain, layers of width 2-50 with two dependencies each), 1-16 workers, optionally one failing target in keep-going or fail-fast mode, optionally load_outputs=minimal; a cold and a warm build (products removed in between), each under a 120 s watchdog; "
             "the build must exit, the exit status must reflect the failure, and in keep-going mode every target that does not depend on the failing one must have its output. "
             "timeouts: histories through the real binary (<=6 targets, 70% declare an 8 s timeout) whose steps make targets sleep 40 s, fail or kill their own shell, in keep-going and fail-fast builds of everything or of one label; every build must exit on its own within 120 s, "
             "non-zero exactly when a selected target could not be resolved, and the follow-up build after the switches are cleared must run what was not completed. "
             "Non-trivial = bubble/race: a selected failure with a selected dependant, or a cancel, or >=1000 zero-latency nodes; restore-faults: >=2 blobs; timeouts: a target that exceeds its timeout or kills its shell; large: at least 100 targets; distinct by full case."),
    "assumptions": [
        "goroutines left blocked after Walk has returned are not violations (the process exits)",
        "the only wall-clock oracles are 30 s (real-scheduler walk) and 30 s (restore) watchdogs on operations that take milliseconds",
        "whole-process behaviour (exit status, no crash dump) under failures and cache faults is observed through the real binary by the history checks",
    ],
    "nt_floor": 0.2,
    "parts": [
        {"name": "bubble", "pkg": "c04", "test": "TestBubble",
         "quick": {"shards": 8, "checks": 1600, "cap": 900},
         "thorough": {"shards": 16, "checks": 40000, "cap": 7200}},
        {"name": "race", "pkg": "c04", "test": "TestRace", "race": True,
         "quick": {"shards": 4, "checks": 300, "cap": 900},
         "thorough": {"shards": 8, "checks": 4000, "cap": 7200}},
        {"name": "race-cancel", "pkg": "c04", "test": "TestRaceCancel", "race": True,
         "quick": {"shards": 4, "checks": 400, "cap": 900},
         "thorough": {"shards": 8, "checks": 8000, "cap": 7200}},
        {"name": "stress", "pkg": "c04", "test": "TestStress",
         "quick": {"shards": 4, "checks": 600, "cap": 900},
         "thorough": {"shards": 8, "checks": 20000, "cap": 7200}},
        {"name": "restore-faults", "pkg": "c04", "test": "TestRestoreFaults",
         "quick": {"shards": 4, "checks": 60, "cap": 900},
         "thorough": {"shards": 8, "checks": 1500, "cap": 7200}},
        {"name": "large", "pkg": "c04", "test": "TestLarge", "binary": True,
         "quick": {"shards": 8, "checks": 16, "cap": 1200, "shrinktime": "120s"},
         "thorough": {"shards": 16, "checks": 480, "cap": 14400, "shrinktime": "300s"}},
        {"name": "timeouts", "pkg": "c04", "test": "TestTimeouts", "binary": True,
         "quick": {"shards": 16, "checks": 32, "cap": 1200, "shrinktime": "90s"},
         "thorough": {"shards": 32, "checks": 800, "cap": 14400, "shrinktime": "300s"}},
    ],
}

PROPS["C10"] = {
    "level": "exploration",
    "rule": ("contenders are real OS processes running the real locker built with a check-time overlay that turns every os.*/file/flock call, liveness probe and back-off timer of the CURRENT workspace_locker.go into a yield point; the controller picks which process performs its next "
             "file-system step, may kill -9 any process at any yield point and may cancel a waiting process's context. dfs: bounded exhaustive enumeration of ALL 2-process schedules up to D scheduling decisions with <=1 crash, for each initial lock file in {absent, empty, garbage, dead PID, live unrelated PID} "
             "(D=8 quick, D=12 thorough; stateless search, each schedule re-executed from scratch). random: 2-3 processes, rapid-drawn schedules of up to 40 decisions, <=2 crashes, <=1 cancel, optional warm-up that lets one process reach the critical section first. "
             "Oracles: never two live processes between Lock()==nil and Unlock(); Lock never returns an error; while one process holds, a newcomer given 12 steps does not acquire; after the schedule the survivors finish under round-robin stepping and each acquires; a fresh process then acquires within 60 steps. "
             "binary: 2-3 real `grog build //...` processes in one generated workspace (slow commands, 1-4 workers) started at generated offsets, one third of them killed (SIGKILL to the process group) or interrupted (SIGINT) after 100-1500 ms; every command appends its grog's pid to a trace. "
             "Oracles: no command of one grog process starts between the start and the end line of a command of another (append order, no clock); a process that was not signalled finishes by itself with exit 0; a further build afterwards succeeds with byte-exact outputs. One case in six is the orphan scenario: the holder alone (not its process group) is killed 0-1000 ms after its command, which sleeps 9 s, has started; a new build of another target must finish within 5 s. "
             "Non-trivial = a process observed the lock file between another's create and PID write, or removed it after it changed, or a holder/contender crashed, or a waiter was cancelled; binary: at least two processes and commands were executed; distinct by full case."),
    "assumptions": [
        "the controller serialises steps: file-system calls are atomic and never truly simultaneous (the property's own quantifier is over interleavings of individual file-system operations)",
        "PID reuse by unrelated processes is outside the model; a lock file naming a live unrelated process legitimately blocks (only safety is checked for that initial state)",
        "yield points come from a fixed table of calls; a call outside the table is simply not a yield point (fewer interleavings, never a fabricated one)",
    ],
    "exhaustive_parts": ["dfs"],
    "exhaustive_scope": "part 'dfs' enumerates every 2-process schedule within its decision bound (<=1 crash); part 'random' (3 processes, longer schedules, cancels) is sampled",
    "nt_floor": 0.2,
    "parts": [
        {"name": "dfs", "pkg": "c10", "test": "TestDFS", "kind": "enum",
         "quick": {"shards": 12, "env": {"VERIF_DEPTH": 8}, "cap": 1200},
         "thorough": {"shards": 16, "env": {"VERIF_DEPTH": 12}, "cap": 14400}},
        {"name": "random", "pkg": "c10", "test": "TestRandom",
         "quick": {"shards": 4, "checks": 400, "cap": 1200, "shrinktime": "60s"},
         "thorough": {"shards": 12, "checks": 24000, "cap": 7200, "shrinktime": "120s"}},
        {"name": "binary", "pkg": "c10", "test": "TestBinary", "binary": True,
         "quick": {"shards": 12, "checks": 36, "cap": 1200, "shrinktime": "60s"},
         "thorough": {"shards": 32, "checks": 1600, "cap": 7200, "shrinktime": "120s"}},
    ],
}

_HIST_ASSUME = [
    "commands come from one template whose output is a deterministic function of (label, nonce, declared inputs by name and content, direct dependencies' declared outputs); expected outputs are computed by the harness from the abstract workspace, not by asking grog",
    "the reference model is three-valued: MUST-NOT only when a successful result for the target's exact current state was recorded with caching on and nothing forces execution; MUST only when not even the state without output-less dependencies was ever built, or execution is forced; everything else MAY (never a violation)",
    "dot-files, symlinked inputs, docker outputs, overlapping outputs and commands reading undeclared files are outside the generator",
]

def _hist(pid, rule, nt, quick=96, thorough=10000, extra_parts=None, floor=0.15):
    parts = [{"name": "histories", "pkg": pid.lower(), "test": "TestHistories", "binary": True,
              "quick": {"shards": 32, "checks": quick, "cap": 1500, "shrinktime": "90s"},
              "thorough": {"shards": 48, "checks": thorough, "cap": 14400, "shrinktime": "300s"}}]
    return {"level": "exploration", "rule": rule + " Non-trivial = " + nt + "; distinct by full history.", "assumptions": _HIST_ASSUME, "nt_floor": floor,
            "parallel": 48, "parts": parts + (extra_parts or [])}

PROPS["C01"] = _hist("C01",
    "histories: a generated workspace (1-6 targets over 5 packages incl. prefix siblings and nested packages; glob / recursive-glob / exclude / missing-file inputs; file, multi-file, dir, bin outputs in not-yet-existing directories; 35% of edges through 1-2 aliases) "
    "followed by 4-12 steps mixing builds (//... or one label/alias) with every edit kind: content edit (incl. revert to an earlier content), boundary shift between adjacent inputs, content swap, add/remove/rename a file under a glob, nonce (command) change, "
    "fingerprint change, output rename, add/remove edge, edge re-routed through an alias, alias re-targeted. Real binary, one persistent cache. After every successful build the declared outputs of every selected target are compared byte-for-byte (and entry-for-entry for dir outputs, exec bits, symlinks) with the harness-computed expectation; every 4th successful build a from-scratch build in a pristine checkout must agree too; exit status, executed set (3-valued model), order and worker bound are checked on every build.",
    "some build restored >=1 target from the cache after >=1 edit since the previous build",
    extra_parts=[{"name": "there-and-back", "pkg": "c01", "test": "TestThereAndBack", "binary": True,
                  "quick": {"shards": 16, "checks": 48, "cap": 1500, "shrinktime": "90s"},
                  "thorough": {"shards": 32, "checks": 3000, "cap": 14400, "shrinktime": "300s"}}])
PROPS["C01"]["rule"] = PROPS["C01"]["rule"].replace(" Non-trivial = ", " there-and-back: the same workspaces and oracles on a structured history: one or two targets go S1 -> S2 -> S1 -> S3 -> S1 (content edit and revert, or a file under a glob removed and re-added) two or three times with a full build after every move (a quarter of them load_outputs=minimal) and three quarters of the file outputs rewritten in place by their commands, so that from the second visit on S1 is served from the cache into a workspace that later states write over. Non-trivial = ")
PROPS["C02"] = _hist("C02",
    "histories: C01's workspaces with edits {content, nonce, boundary shift, add/rename file, fingerprint, re-route through alias} plus workspace perturbations between builds: declared output deleted, its parent directory deleted, truncated, overwritten with longer content, exec bit flipped, stale entry added inside a dir output, dir output replaced by a file; builds in both load_outputs modes, xxh3 and sha256, 1-8 workers. "
    "The executed set of every build (S lines written by the commands themselves) must avoid every MUST-NOT target of the reference model and contain every MUST target; no-op rebuilds execute nothing.",
    "a build restored a target after its workspace outputs were perturbed, or rebuilt only part of the selection")
PROPS["C13"] = _hist("C13",
    "histories: workspaces where targets may carry no-cache, steps {grog taint <label or //...>, toggle no-cache tag, content/nonce edits, builds with and without --enable-cache=false}. A tainted / no-cache / cache-disabled target must have an S line; after a successful forced run the taint is consumed (next build: MUST-NOT); dependants with a good entry whose dependency reproduced identical outputs are MUST-NOT.",
    "a target was forced to run although a good entry for its state existed (hash-agreement: >=2 outputs or a symlinked file output)", quick=144,
    extra_parts=[{"name": "hash-agreement", "pkg": "c06", "test": "TestHashAgreement",
                  "quick": {"shards": 4, "checks": 3000, "cap": 600}, "thorough": {"shards": 8, "checks": 80000, "cap": 3600}}])
PROPS["C13"]["rule"] = PROPS["C13"]["rule"].replace(" Non-trivial = ", " hash-agreement (in-process, real output registry): C06's generated outputs plus file outputs that are symbolic links; the output hash of the cached path (WriteOutputs) and of the uncached path (GetNoCacheOutputHash) must be equal for the same outputs on disk, and both must change after a change of content or exec bit of a file output and stay put after a rewrite with identical bytes. Non-trivial = ")
PROPS["C14"] = _hist("C14",
    "histories: targets carry 0-2 output checks over an external marker (outside the workspace, never an input; with and without expected_output; the command may or may not establish it), timeouts of 2 s; steps {destroy marker, set marker (right or wrong content), stop establishing, skip a declared output, make the command slow, clear switches, edits, builds}. "
    "A target whose check fails before the cache decision must run; if checks still fail after execution, or an output is missing, or the timeout hits, the build must exit non-zero, name the target, skip dependants and record nothing (next build runs it again).",
    "the history destroys a marker, skips an output or triggers a timeout", quick=144)
PROPS["C05"] = _hist("C05",
    "histories: failing subsets chosen through undeclared switch files (exit 3, missing declared output, timeout, failing check) so that cache keys do not move, keep-going and --fail-fast builds, follow-up builds with switches cleared. Keep-going: every target without a failed transitive dependency runs or is restored, no dependant of a failed target has an S line, exit != 0, failed labels named; the follow-up build must run every previously failed target again (nothing was cached). failfast-gated: real binary, --fail-fast, F fails as soon as B1 started, B1 sleeps 3 s, B2 depends on B1: B2 must never start and grog must exit non-zero. walker: same containment rules in a synctest bubble.",
    "a build with a failing target that has both a selected dependant and a selected independent target", quick=144,
    extra_parts=[{"name": "walker", "pkg": "c05", "test": "TestWalkerContainment",
                  "quick": {"shards": 8, "checks": 3000, "cap": 900}, "thorough": {"shards": 16, "checks": 60000, "cap": 7200}},
                 {"name": "failfast-gated", "pkg": "c05", "test": "TestFailFastGated", "binary": True,
                  "quick": {"shards": 12, "checks": 24, "cap": 900}, "thorough": {"shards": 24, "checks": 400, "cap": 7200}}])
PROPS["C15"] = _hist("C15",
    "lock-step histories: every build of a C01-style history (all edit kinds, taint, aliases, dir and bin outputs) is played twice: load_outputs=all and load_outputs=minimal in separate workspaces and caches. Exit status and executed set must be equal; every output of a target executed under minimal must equal the expectation (so every dependency output it read, also through aliases, was present and current).",
    "a minimal-mode build executed a target while >=1 of its direct dependencies was a cache hit (outputs had to be loaded on demand)", quick=64, thorough=5000)

PROPS["C20"] = {
    "level": "exploration",
    "rule": ("queries: a generated workspace (1-6 targets over 5 packages, aliases on 35% of edges, glob/recursive/exclude/missing-file inputs, some leaf targets renamed *_test, bin outputs) queried through the real binary: "
             "the full matrix deps/rdeps x {direct, -t} for EVERY node (stdout as a list must equal the sorted reference set: a duplicate line fails), y in deps -t x <=> x in rdeps -t y computed from the outputs themselves, "
             "plus 4-10 generated queries: deps/rdeps with --target-type, owners for input files, non-inputs and declared-but-missing files (relative spellings from 6 different cwds and absolute paths), list with 0-2 patterns from a cwd and a type filter. "
             "Then a full build, an edit of one source file, owners(f) and rdeps -t of each owner, and a rebuild: every executed target must be in owners(f) or their transitive rdeps. "
             "Non-trivial = the graph has a diamond (a node reachable over two different first steps) or an alias; distinct by full case."),
    "assumptions": [
        "aliases are nodes of the dependency graph for deps/rdeps (they are printed by the real commands and needed for the inverse law); type filters apply to targets only",
        "platform selectors are not generated here (C12 covers them); `changes` needs a git repository and is not exercised",
    ],
    "nt_floor": 0.3,
    "parallel": 32,
    "parts": [
        {"name": "queries", "pkg": "c20", "test": "TestQueries", "binary": True,
         "quick": {"shards": 24, "checks": 120, "cap": 1500, "shrinktime": "60s"},
         "thorough": {"shards": 32, "checks": 6000, "cap": 14400, "shrinktime": "120s"}},
    ],
}

PROPS["C18"] = {
    "level": "exploration",
    "rule": ("interrupts: a generated workspace (1-7 targets, dir outputs, 1-4 workers) whose commands sleep 0-900 ms between their S and E trace lines, optionally with a warm cache and changed commands; the real binary is sent SIGINT or SIGTERM (to the process or, like a terminal, to its process group) "
             "at an offset stratified over start-up, execution and the tail of the build (0-3.6 s). Oracles: exit within 15 s of the signal; no crash dump; exit != 0 whenever some selected target never reached its E line; no trace line appears after grog has exited (no surviving target shell); "
             "the follow-up build finishes (lock is acquired), exits 0, executes every target that did not finish (nothing was recorded for it) and leaves byte-exact outputs. "
             "Non-trivial = the signal arrived while >=1 target was between S and E; distinct by full case."),
    "assumptions": [
        "signal timing is sampled, not enumerated; phases are only classified afterwards from the trace",
        "15 s against a mechanism that takes ~0.5-1.5 s (1 s WaitDelay) and commands that would otherwise sleep; a loaded machine cannot bridge that gap",
    ],
    "nt_floor": 0.2,
    "parallel": 32,
    "parts": [
        {"name": "interrupts", "pkg": "c18", "test": "TestInterrupts", "binary": True,
         "quick": {"shards": 32, "checks": 128, "cap": 1500, "shrinktime": "60s"},
         "thorough": {"shards": 32, "checks": 4000, "cap": 14400, "shrinktime": "120s"}},
    ],
}

PROPS["C07"] = {
    "level": "fault_enumeration",
    "rule": ("backend-ops: rapid sequences of 1-8 operations on the real FileSystemCache: complete writes, writes whose reader fails at chunk k, pairs of CONCURRENT writes of one key whose readers are gated chunk by chunk by a generated interleaving (one of them optionally failing), deletes; after every operation each key must be absent or hold exactly one complete content of a completed write (never a prefix, never a mixture). "
             "cas-ops: sequences of Cas.Write over a fault-injecting in-memory backend, including two simultaneous writes of one digest where the first backend write is held until the second Write has returned and either may fail; a Write that returned nil must leave the blob retrievable with its exact content. "
             "wrapper-faults: 1-6 write-throughs (RemoteWrapper.Set or Cas.Write over it; real file cache + a streaming remote twin that commits an object only after a clean end of stream) with one fault each: source fails after n chunks, "
             "local half fails before reading (its directory is a regular file) or at the final rename (a directory sits at the blob path), remote stops reading after k bytes or refuses the commit; after every write no store exposes a digest with other content than its own and a write that returned nil is present in both. "
             "op-faults (fault enumeration): the executor assembled in-process exactly as RunBuild does, over a backend decorator that numbers every Get/Set/Exists/Delete; for a cold build and for a partial rebuild on a warm cache, for every 5th (quick) / EVERY (thorough) backend operation n and each of {error returned, process killed before the operation, process killed after it} the build is repeated in a child process; afterwards the cache directory must pass the audit and the next fault-free build must succeed with byte-exact outputs. "
             "crash-in-set: a child process dies from SIGKILL inside Set after k chunks (k = 0..12), over an absent or an existing key; afterwards the key holds the old complete content, the new complete content, or nothing. "
             "kill-histories: real-binary histories (targets with 0.2-3 MiB outputs, dir outputs, blobs shared between targets) where builds are killed with SIGKILL (whole process group) after 0-1500 ms or run with an unwritable blob store; after EVERY invocation the cache directory is audited "
             "(each cas/<d> re-hashes to d; each target/<k> decodes, has change_hash k and references only present blobs incl. every file node of every tree) and every later fault-free build must exit 0 with byte-exact outputs. "
             "Non-trivial = backend-ops: a failed or concurrent write occurred; wrapper-faults: a fault was delivered; crash and op-faults: always; kill-histories: the kill landed while a target was running or after one finished, or a storage fault was injected; distinct by full case."),
    "assumptions": [
        "leftover tmp-* files are not visible under any key and are not violations",
        "kill times are sampled (no yield points inside the binary); the in-process parts enumerate chunk positions 0..12 of the copy loop",
        "a follow-up build may re-execute anything (MAY after faults); only exit status, bytes and cache consistency are asserted",
    ],
    "nt_floor": 0.2,
    "parallel": 32,
    "parts": [
        {"name": "backend-ops", "pkg": "c07", "test": "TestBackendOps",
         "quick": {"shards": 8, "checks": 4000, "cap": 900}, "thorough": {"shards": 16, "checks": 100000, "cap": 7200}},
        {"name": "cas-ops", "pkg": "c07", "test": "TestCasOps",
         "quick": {"shards": 4, "checks": 4000, "cap": 600}, "thorough": {"shards": 8, "checks": 200000, "cap": 3600}},
        {"name": "wrapper-faults", "pkg": "c07", "test": "TestWrapperFaults",
         "quick": {"shards": 4, "checks": 3000, "cap": 600}, "thorough": {"shards": 8, "checks": 150000, "cap": 3600}},
        {"name": "op-faults", "pkg": "c07", "test": "TestOpFaults",
         "quick": {"shards": 12, "checks": 12, "cap": 1500, "shrinktime": "60s"}, "thorough": {"shards": 32, "checks": 240, "cap": 14400, "shrinktime": "120s"}},
        {"name": "crash-in-set", "pkg": "c07", "test": "TestCrashInSet",
         "quick": {"shards": 8, "checks": 400, "cap": 900}, "thorough": {"shards": 16, "checks": 8000, "cap": 7200}},
        {"name": "kill-histories", "pkg": "c07", "test": "TestKillHistories", "binary": True,
         "quick": {"shards": 32, "checks": 64, "cap": 1500, "shrinktime": "90s"}, "thorough": {"shards": 32, "checks": 3000, "cap": 14400, "shrinktime": "300s"}},
    ],
}

PROPS["C08"] = {
    "level": "fault_enumeration",
    "rule": ("wrapper-ops: sequences of 2-10 operations on the real RemoteWrapper(FileSystemCache, remote) + Cas where the remote is an in-memory store with per-operation PUT/GET/HEAD faults: CAS writes (also of blobs that are already in the local cache only, also from a fresh Cas as in a new process), reads, losing a blob locally or remotely; "
             "a successful Cas.Write must leave the exact blob in the remote store, a read must return exact bytes and fill the local cache, a read may only fail when neither store can serve it or a fault was injected. "
             "machines: the real binary against a loopback fake S3: machines A and B (same checkout path = same remote namespace, separate local cache roots), steps {build on A or B with the remote on or off and 0-2 injected request faults (500, 404 for an existing object, body truncated mid-stream, connection reset on the n-th GET/PUT/HEAD), edit, wipe a local cache, the remote loses an object}. "
             "After every successful remote-on build the remote store is audited (every target result decodes and references only present blobs); after every fault-free one a third machine with an empty cache and a clean checkout must exit 0, must not execute anything that build executed, restore exact bytes and end with a consistent local cache; builds under faults either exit 0 with exact bytes or fail, within 120 s. "
             "Non-trivial = wrapper-ops: a fault, a read-through or a write of a local-only blob; machines: a faulty build, a lost remote object or a cross-machine restore of something just written; distinct by full case."),
    "assumptions": [
        "only the S3 backend is exercised end to end (no GCS emulator is installed); GCS shares the wrapper and the key construction",
        "two machines are modelled as two cache roots over one checkout path, built sequentially",
    ],
    "nt_floor": 0.2,
    "parallel": 24,
    "parts": [
        {"name": "wrapper-ops", "pkg": "c08", "test": "TestWrapperOps",
         "quick": {"shards": 4, "checks": 4000, "cap": 600}, "thorough": {"shards": 8, "checks": 200000, "cap": 3600}},
        {"name": "machines", "pkg": "c08", "test": "TestMachines", "binary": True,
         "quick": {"shards": 24, "checks": 72, "cap": 1500, "shrinktime": "90s"}, "thorough": {"shards": 32, "checks": 5000, "cap": 14400, "shrinktime": "300s"}},
    ],
}
