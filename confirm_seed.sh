#!/bin/sh
# usage: confirm_seed.sh <seed-name> <patch.diff> <demo-dir>
# Confirms in a scratch worktree (outside /repo and /verif): demo passes on HEAD, patch applies and compiles,
# existing tests pass with it, demo fails with it. Writes a JSON verdict to stdout; removes the worktree.
name=$1; patch=$2; demo=$3
export GOTOOLCHAIN=local GOPROXY=off GOSUMDB=off GOFLAGS=-mod=readonly
wt=/tmp/confirm/$name
rm -rf "$wt"; mkdir -p /tmp/confirm
git -C /repo worktree add -q --detach "$wt" HEAD || exit 3
cleanup() { git -C /repo worktree remove --force "$wt" >/dev/null 2>&1; rm -rf "$wt"; }
trap cleanup EXIT
log=/tmp/confirm/$name.log; : > $log
( cd "$demo" && bash ./run.sh "$wt" ) >>$log 2>&1; clean_rc=$?
( cd "$wt" && git checkout -q -- . && git clean -fdq )
( cd "$wt" && git apply "$patch" ) >>$log 2>&1; apply_rc=$?
( cd "$wt" && go1.26.8 build ./... ) >>$log 2>&1; build_rc=$?
tests_rc=1
for attempt in 1 2 3; do
  ( cd "$wt" && go1.26.8 test -vet=off -count=1 -timeout 3m $(go1.26.8 list ./internal/... | grep -v internal/completions) ) >$log.tests 2>&1; tests_rc=$?
  cat $log.tests >> $log
  [ $tests_rc -eq 0 ] && break
  # the suite has timing-sensitive tests (worker.TestRunWithConcurrentShutdown, dag.TestNoDoubleCancel): retry
done
( cd "$demo" && bash ./run.sh "$wt" ) >>$log 2>&1; patched_rc=$?
echo "{\"seed\":\"$name\",\"demo_on_clean_rc\":$clean_rc,\"apply_rc\":$apply_rc,\"build_rc\":$build_rc,\"existing_tests_rc\":$tests_rc,\"demo_on_patched_rc\":$patched_rc,\"base\":\"$(git -C /repo rev-parse --short HEAD)\"}"
