#!/bin/sh
# usage: seedtest.sh <patch.diff> <check-id> [extra check args]  — applies a seeded change to /repo, runs the check, reverts.
patch=$1; shift; id=$1; shift
cd /repo || exit 3
if [ -n "$(git status --porcelain)" ]; then echo "repo not clean"; exit 3; fi
git apply "$patch" 2>/tmp/seedtest.err || { echo "patch does not apply"; cat /tmp/seedtest.err; git reset -q --hard HEAD; exit 3; }
# evidence/ describes the unchanged tree: keep the seeded run from overwriting it
ev=/verif/evidence/$id.json; [ -f "$ev" ] && cp "$ev" "/tmp/seedtest.$id.evidence"
cd /verif && ./check "$id" "$@" > /tmp/seedtest.$id.out 2>&1; rc=$?
[ -f "/tmp/seedtest.$id.evidence" ] && mv "/tmp/seedtest.$id.evidence" "$ev"
grep -E "^(VIOLATION|KNOWN-FINDING|OK|INCONCLUSIVE)" /tmp/seedtest.$id.out | head -5
# drop replays created by the seeded run
git -C /verif status --porcelain replays | awk '$1=="??"{print $2}' | while read f; do rm -rf "/verif/$f"; done
cd /repo && git checkout -- . && git clean -fdq
echo "rc=$rc"
