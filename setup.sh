#!/bin/sh
# Offline setup: warm the Go build cache for the grog binary and every harness package.
set -e
cd "$(dirname "$0")"
export GOTOOLCHAIN=local GOPROXY=off GOSUMDB=off
mkdir -p .build evidence
(cd "${VERIF_REPO:-/repo}" && GOFLAGS=-mod=readonly go1.26.8 build -tags verif -o /dev/null .)
(cd harness && GOFLAGS=-mod=mod go1.26.8 test -tags verif -count=1 -run '^$' ./... >/dev/null)
echo setup ok
