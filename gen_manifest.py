#!/usr/bin/env python3
"""Regenerates MANIFEST.json from checks_table.py (single source of truth for parts and budgets)."""
import json, os, sys
VERIF = os.path.dirname(os.path.abspath(__file__))
sys.path.insert(0, VERIF)
from checks_table import PROPS
from manifest_text import TEXT, NOT_APPLICABLE, HOOK_COMMITS

all_ids = [json.loads(l)["id"] for l in open(os.path.join(VERIF, "properties.jsonl")) if l.strip()]
checks = []
for pid in all_ids:
    if pid not in PROPS or pid not in TEXT:
        continue
    t = TEXT[pid]
    checks.append({
        "property_id": pid,
        "quick_cmd": "./check %s --tier quick" % pid,
        "thorough_cmd": "./check %s --tier thorough" % pid,
        "evidence_file": "/verif/evidence/%s.json" % pid,
        "replay_cmd_template": "./check %s --replay {path}" % pid,
        "engine": t["engine"],
        "level_claimed": {"category": PROPS[pid]["level"], "text": t["level_text"], "design_ref": t["design_ref"]},
        "level_note": t["level_note"],
        "technique": t["technique"],
    })
claimed = {c["property_id"] for c in checks}
na = [{"property_id": pid, "reason": NOT_APPLICABLE.get(pid, "check not built yet in this round; see DESIGN.md section 4 for the plan")}
      for pid in all_ids if pid not in claimed]
manifest = {
    "version": 1,
    "setup_cmd": "./setup.sh",
    "hooks": {
        "guard": "verif",
        "enable": "checks build /repo with `go build -tags verif` (GOTOOLCHAIN=local go1.26.8, -mod=readonly); yield points for C10 come from a build overlay generated at check time from the current sources, not from committed hooks (no hook commit exists in /repo)",
        "baseline_off_cmd": "cd /repo && GOTOOLCHAIN=local GOPROXY=off GOFLAGS=-mod=readonly go1.26.8 test -json -vet=off -count=1 -timeout 25m ./...",
        "source_commits": HOOK_COMMITS,
        "add_only": True,
    },
    "engines": [
        {"name": "driver", "path": "check", "serves_properties": sorted(claimed), "kind_free_text": "python3 driver: rebuild from /repo, replay regression cases, shard rapid/enumeration/fuzz children, merge evidence"},
        {"name": "pbt", "path": "harness/lib/pbt", "serves_properties": sorted(claimed), "kind_free_text": "Go: rapid-based property runner with case classification, write-ahead case file, signature-mapped known findings, replay without generator"},
    ],
    "checks": checks,
    "not_applicable": na,
    "notes": "Property-based testing / fuzzing only. Generated cases are pure data (JSON); every failure is shrunk by rapid (or by enumeration order) and saved under replays/<id>/, replayed first on every run. known_findings.jsonl lists fixed and known findings.",
}
with open(os.path.join(VERIF, "MANIFEST.json"), "w") as f:
    json.dump(manifest, f, indent=1)
print("claimed:", sorted(claimed), "not claimed:", [x["property_id"] for x in na])
