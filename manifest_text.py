"""Free-text parts of MANIFEST.json per property."""
HOOK_COMMITS = []
NOT_APPLICABLE = {}
TEXT = {}
TEXT["C17"] = {
    "engine": "harness/c17 (E-enum + E-api rapid + native fuzz entry)",
    "technique": "exhaustive small-scope enumeration + rapid generation against a reference parser/matcher written from docs, plus print/re-parse round-trip (metamorphic) oracle",
    "design_ref": "DESIGN.md §4 C17",
    "level_text": "Every string up to length 6 (quick) / 8 (thorough) over {a,b,/,:,.} under four current packages is parsed as label and as pattern; strings inside the documented grammar must agree with an independent reference parser and matcher over a 105-label universe, every accepted string must survive print->re-parse with an identical match set. Random longer strings over a wider alphabet extend this by sampling. Exhaustive within the bound, exploration beyond it.",
    "level_note": "Trusted: the reference grammar transcribed from docs/reference/labels.md; the 105-label universe separates all match sets of interest (prefix siblings, nested packages, the name 'all').",
}

TEXT["C09"] = {
    "engine": "harness/c09 (E-api rapid, metamorphic pairs)",
    "technique": "property-based metamorphic testing of the cache-key function: generated state pairs related by key-preserving permutations/relocation vs. concatenation-preserving boundary shifts, under two hash algorithms",
    "design_ref": "DESIGN.md §4 C09",
    "level_text": "Generated pairs of target states are hashed with the real hashing package over real files: must-equal relations (order, location, mtime, format, overlapping globs, workers) and must-differ relations (every single-component edit and a boundary shift for every adjacent component pair, including header-mimicking content) are checked under xxh3 and sha256; a second part checks the dependant key through 0-3 aliases, a third the key of packages loaded from permuted BUILD renderings. Sampling, not proof of injectivity.",
    "level_note": "Trusted: the abstract-state function in the harness (what 'equal state' means); collisions under only one algorithm are counted, not failed.",
}
TEXT["C06"] = {
    "engine": "harness/c06 (E-api rapid, round trip)",
    "technique": "property-based round-trip testing of output caching/restoring through the real output registry over generated trees and generated prior destination states (also under the race detector), and of `grog run` on restored bin outputs through the real binary",
    "design_ref": "DESIGN.md §4 C06",
    "level_text": "Generated file and directory outputs (exec bits, symlinks incl. dangling/escaping, empty dirs, duplicate contents, odd names) are cached with Registry.WriteOutputs, the destination is put into one of 17 prior states (incl. a directory or an outward symlink where a file belongs), Registry.LoadOutputs must succeed and reproduce the recursive listing exactly.",
    "level_note": "Trusted: the listing function (type, exec bit, size, sha256, link target). Modes other than exec, mtimes and ownership are not compared. Real-binary restore paths are exercised by the history checks (C01/C02).",
}
TEXT["C12"] = {
    "engine": "harness/c12 (E-api rapid, model-based)",
    "technique": "model-based property testing: generated graphs and invocations against an independent reference selector (seeds + dependency closure through aliases, platform rules)",
    "design_ref": "DESIGN.md §4 C12",
    "level_text": "SelectTargetsForBuild is compared with a reference selector on generated graphs (aliases, tests, tags, platforms) and invocations (patterns of every documented form relative to a current package, tags/exclude-tags, build vs test, host platform, --all-platforms): selected set, counts and error/no-error, two-sided.",
    "level_note": "Trusted: the reference selector and refmodel pattern matcher. An alias matched by a pattern whose aliased target fails the filters may or may not act as a seed (documented ambiguity): accepted outcomes are exactly closure(strict seeds + the ambiguous aliases actually selected).",
}
TEXT["C11"] = {
    "engine": "harness/c11 (E-api rapid + E-enum)",
    "technique": "model-based property testing against a reference graph validator written from the property sentence, plus exhaustive enumeration of two-target output-overlap space",
    "design_ref": "DESIGN.md §4 C11",
    "level_text": "Generated BUILD trees with injected defects and near-misses go through the same load/graph/constraint pipeline as `grog check`; accept/reject must equal the reference validator in both directions. All pairs of single-output targets over 3 packages x 23 output spellings x {independent, ordered, ordered via alias} are enumerated exhaustively.",
    "level_note": "Trusted: refmodel.ValidateGraph. Rejections the property does not list are kept out of the generator. 'Executes nothing on reject' is observed through the real binary in the history checks, not here.",
}
TEXT["C19"] = {
    "engine": "harness/c19 (E-api rapid over parametric families)",
    "technique": "metamorphic scaling test on parametric graph families (ladder/dense vs chain) with deterministic work counters and CPU-time ratio",
    "design_ref": "DESIGN.md §4 C19",
    "level_text": "Selection, ancestor/descendant traversal (work counters) and graph building with ordered overlapping writers, critical path, failure propagation and a full walk (CPU time with a 1000x margin) cycle search (with and without a cycle closing over the whole depth) and the selected subgraph are run on ladders, dense DAGs and irregular layered DAGs with up to 2^24 (walker and cycle search: 2^40) dependency paths and compared with chains of equal size; every operation runs under a 90 s watchdog.",
    "level_note": "Nothing is proved about complexity. CPU-time threshold: > 2 s and > 50x the chain (a correct run takes milliseconds). Query commands of the binary are covered by C20 (each label once).",
}
TEXT["C16"] = {
    "engine": "harness/c16 (E-api rapid: differential, determinism, mutation robustness; child processes with write-ahead cases)",
    "technique": "differential property testing across BUILD formats, repeated-load determinism under shuffled directory order and worker counts, and mutation-based robustness fuzzing of every loader",
    "design_ref": "DESIGN.md §4 C16",
    "level_text": "One abstract package is rendered to JSON, YAML, Starlark (plain and through a macro library with relative loads) and Makefile annotations and must load identically; multi-file packages must load identically 12 times under shuffled creation order and 1-16 workers without losing nodes; byte-level mutations of renderings must yield a value or an error, never a panic/fatal error/hang.",
    "level_note": "Trusted: the renderers (YAML renderings are validated by reading them back with yaml.v3). Pkl is not exercised (needs the external pkl binary).",
}

TEXT["C03"] = {
    "engine": "harness/c03 + lib/walkeng (E-walk: synctest bubble with generated virtual latencies; real scheduler under -race)",
    "technique": "schedule-owning property testing: real walker + real worker pool in a testing/synctest bubble where generated latencies determine the completion order; invariants over the event history; race-detector stress on the real scheduler",
    "design_ref": "DESIGN.md §4 C03",
    "level_text": "Generated DAGs (incl. alias nodes), selections, worker counts and per-node virtual latencies drive the real Walker and TaskWorkerPool; the event history must show dependencies-first, at most one start per node, running <= num_workers, nothing unselected. The same cases run on the real scheduler with the race detector.",
    "level_note": "Same-instant interleavings are the Go scheduler's (sampled, not enumerated). Command-level ordering and the worker bound are also observed on the real binary (part binary: S/E markers written by slow commands, fewer workers than the graph is wide, a third round under load_outputs=minimal after a fresh checkout or a wiped blob store).",
}
TEXT["C04"] = {
    "engine": "harness/c04 + lib/walkeng (bubble, race, race-cancel, stress) + restore fault enumeration through the real output registry + lib/histeng timeout/failure histories of the real binary",
    "technique": "property testing over failure/cancel patterns with synctest deadlock detection, race-detector stress, and exhaustive single/pair fault enumeration over every cache object of a restore",
    "design_ref": "DESIGN.md §4 C04",
    "level_text": "Walker level: generated failure sets, fail-fast on/off and cancel times over graphs up to 4000 nodes; Walk must return and leave every selected node resolved. Restore level: for every cache blob of generated outputs x {deleted, truncated, emptied}, pairs of deletions and all-deleted, LoadOutputs must return. Binary level: histories in which targets exceed their declared timeout, fail or kill their shell, in keep-going and fail-fast builds; every build must exit on its own and resolve every selected target; builds of 60-600 targets (cold and warm, optional failure) must terminate with the right exit status.",
    "level_note": "Fault enumeration is complete per generated output set for single faults (and up to 40 pairs); which output sets are generated is sampled. Leaked goroutines after Walk returned are not violations.",
}
TEXT["C10"] = {
    "engine": "harness/c10: controller + real contender processes built with a check-time yield-point overlay of the current workspace_locker.go (cmd/lockrewrite, c10/hooks.go.txt, cmd/contender); part binary: real grog build processes in one workspace",
    "technique": "controlled-schedule testing of real processes: bounded exhaustive stateless DFS over all 2-process interleavings of file-system steps with crash points, plus rapid-drawn 3-process schedules with crashes and cancels, plus sampled-timing runs of 2-3 real `grog build` processes with kills and interrupts",
    "design_ref": "DESIGN.md §4 C10",
    "level_text": "Every interleaving of two contenders' individual file-system operations up to 8 (quick) / 12 (thorough) scheduling decisions, with at most one kill -9 at any yield point, from five initial lock-file states, cold and with an established holder (where a waiter may also be cancelled), is executed against the real locker; random 3-process schedules extend this. Safety (never two holders, newcomer cannot enter), no Lock error, progress of survivors and recovery by a fresh process are checked. Part binary: real builds started at generated offsets, one may be killed or interrupted; no command of one grog may start inside a command of another (append order of a shared trace), unsignalled builds exit 0, a holder killed alone while its command sleeps on must not block the next build, a final build leaves exact outputs.",
    "level_note": "Exhaustive only within the decision bound and for 2 processes; steps are serialised by the controller (atomic file-system calls). The yield-point table is fixed (os.OpenFile/ReadFile/Remove/Stat/..., Write/Close/Truncate, syscall.Flock, Process.Signal, time.After).",
}

_HIST_ENGINE = "harness/lib/histeng (workspace model, command template, expectation interpreter, 3-valued reference model, sandbox runner driving the real binary) + harness/%s"
def _hist_text(pid, technique, level_text, note):
    TEXT[pid] = {"engine": _HIST_ENGINE % pid.lower(), "technique": technique, "design_ref": "DESIGN.md §4 " + pid, "level_text": level_text, "level_note": note}

_hist_text("C01", "stateful model-based property testing of the real binary: generated edit/build histories over one persistent cache, outputs compared with an independently computed expectation and (sampled) with a from-scratch build",
    "Histories of 4-12 steps (every edit kind incl. boundary shifts, reverts to earlier states, glob membership changes, alias re-routing) are played against the real grog binary; after each successful build every declared output of every selected target must equal the harness-computed expectation, and every 4th successful build a pristine from-scratch build must agree.",
    "Trusted: the command template's determinism and the 40-line expectation interpreter (cross-checked against from-scratch grog builds on a sample). Small graphs (<=6 targets) on purpose: stale hits need a pair of states, not a big graph.")
_hist_text("C02", "stateful model-based property testing: executed sets (trace lines written by the commands themselves) against a three-valued reference model, under workspace perturbations",
    "Between builds the workspace copies of declared outputs are deleted, truncated, overwritten, chmod-ed, polluted or replaced, parents removed; builds run in both load_outputs modes, both hash algorithms and 1-8 workers. No MUST-NOT target may execute, every MUST target must, a no-op rebuild executes nothing, and outputs must be exact afterwards.",
    "MAY verdicts (entries written with caching off, after faults, fail-fast races) are never violations. Checkout relocation is a history step (the checkout is moved and the cache directory renamed to the name grog derives for the new path).")
_hist_text("C05", "stateful model-based property testing with injected command failures (undeclared switch files) in keep-going and fail-fast mode, plus walker-level containment in a synctest bubble",
    "Failing subsets (exit status, missing declared output, timeout, failing/wrong post-condition, self-SIGKILL) are switched on and off without moving cache keys. Keep-going: independent targets complete, dependants are skipped, exit != 0, failed targets named, nothing cached (follow-up build runs them again). Fail-fast at walker level: no command starts at a later virtual instant than the first failure.",
    "For fail-fast builds of the real binary only the safe half is asserted (dependants of a failed target never run; exit != 0); which independent targets still start is timing dependent and left MAY.")
_hist_text("C13", "stateful model-based property testing over taint / no-cache / enable_cache histories with a three-valued model, plus an in-process differential check of the two output-hash paths (cached vs uncached) over generated outputs",
    "grog taint, no-cache tag toggles and --enable-cache=false builds are mixed with edits and failures; forced targets must run, a successful forced run consumes the taint (a failed one does not), dependants with unchanged dependency outputs stay cached. hash-agreement: for generated file/dir outputs (incl. symlinked file outputs) Registry.WriteOutputs and Registry.GetNoCacheOutputHash must return the same output hash, which must move with content and exec-bit changes only.",
    "No open finding: the formerly listed one (dependants rebuilt once after a dependency switched between cached and uncached execution) was repaired in the code (dab3f16) and its recognition in the model is switched off.")
_hist_text("C14", "stateful model-based property testing with external post-conditions (markers outside the workspace), timeouts, missing outputs and signal deaths",
    "Output checks over external markers are established, cached, destroyed and falsified; commands may skip a declared output, overrun their timeout or die from SIGKILL. Success (exit 0, cached) is only accepted when the command ended, all outputs exist and all checks pass; a failing check forces execution despite a cached result.",
    "Timeouts are 8 s against commands that take ~50 ms and a slow switch of 40 s (order-of-magnitude separation on both sides).")
_hist_text("C15", "differential (lock-step) property testing: the same generated history under load_outputs=all and =minimal in separate sandboxes, with cache faults",
    "Every build is played in two sandboxes with separate caches and models. Exit status must agree; executed sets must agree when both models are certain; every target executed under minimal must produce exactly the expected bytes (its dependency outputs, also behind aliases, were present and current). Fault steps wipe the blob store and workspace outputs in both sandboxes.",
    "With injected faults or entries of unknown provenance executed sets may differ (stated by the property); then only exit status and bytes are compared.")
TEXT["C20"] = {
    "engine": "harness/c20 + lib/histeng sandbox (real binary)",
    "technique": "model-based and metamorphic property testing of the query commands: full deps/rdeps matrix against reference closures, inverse law computed from the outputs, owners/list against reference sets, rebuild-prediction check",
    "design_ref": "DESIGN.md §4 C20",
    "level_text": "For every node of generated graphs deps/rdeps (direct and transitive) must print exactly the reference set, each label once; deps -t and rdeps -t must be mutual inverses; owners and list are compared with reference sets under different cwds, spellings and type filters; after an edit, the rebuilt targets must lie within owners(f) and their transitive rdeps.",
    "level_note": "Trusted: reference closures over the node graph (aliases are nodes) and refmodel pattern matcher. `grog changes` is not exercised (needs git history).",
}

TEXT["C07"] = {
    "engine": "harness/c07 (API-level backend/CAS sequences with harness-owned interleavings, crash child processes) + lib/histeng kill/storage-fault histories + lib/audit",
    "technique": "fault-injection property testing: generated operation sequences with failing readers and chunk-level controlled concurrent writers against a map model; SIGKILL inside Set at enumerated chunk positions in a child process; kill -9 and unwritable-store histories of the real binary followed by an offline cache audit and recovery builds",
    "design_ref": "DESIGN.md §4 C07",
    "level_text": "Every key must hold exactly one complete content of a completed write under failing, concurrent (interleaving owned by the harness at copy-chunk granularity) and killed writers; a CAS write that reports success must leave the blob retrievable; after every real build that is killed or runs against an unwritable blob store the cache directory is audited (digests re-hashed, target results decoded, every referenced blob present) and later builds must succeed with exact outputs.",
    "level_note": "Crash points inside the real binary are sampled in time; in-process the copy loop positions 0..12 are enumerated, every backend operation of whole in-process builds is faulted/crashed in turn (op-faults), and every half of a write-through is faulted (wrapper-faults).",
}
TEXT["C08"] = {
    "engine": "harness/c08 (wrapper/CAS/target-result API twin over a faulty in-memory remote; real binary against lib/fakes3, three cache roots over one checkout) + lib/audit",
    "technique": "model-based fault-injection testing of the write-through/read-through wrapper plus two-machine histories of the real binary against a loopback fake S3 with per-request fault plans, remote-store audit and cross-machine restore probe",
    "design_ref": "DESIGN.md §4 C08",
    "level_text": "API level: successful CAS / target-result writes must reach the remote store exactly (also when the object was local-only before), reads return exact bytes and fill the local cache, under PUT/GET/HEAD faults. Binary level: builds on machines A/B with the remote on/off, request faults (500, spurious 404, truncated body, reset), lost local blobs, lost remote objects; what a successful remote-on build wrote is audited in the fake store and must be restored without execution, byte-exact, by a third machine with an empty cache.",
    "level_note": "S3 only (no GCS emulator). Machines are sequential cache roots over one checkout path.",
}
TEXT["C18"] = {
    "engine": "harness/c18 + lib/histeng sandbox (real binary, real signals)",
    "technique": "fault-timing property testing: SIGINT/SIGTERM at generated offsets (process or process group) into real builds of slow targets, followed by survivor detection and a recovery build",
    "design_ref": "DESIGN.md §4 C18",
    "level_text": "Signals are delivered at offsets stratified over loading, execution and shutdown, also with commands that ignore SIGTERM; grog must exit non-zero within 15 s when something was unfinished, leave no running target shell behind, record nothing for interrupted targets (the follow-up build runs them again), and the follow-up build must acquire the lock and produce exact outputs.",
    "level_note": "Signal times are sampled, not enumerated.",
}
