"""Free-text parts of MANIFEST.json per property."""
HOOK_COMMITS = []
NOT_APPLICABLE = {}
TEXT = {}
TEXT["C17"] = {
    "engine": "harness/c17 (E-enum + E-api rapid + native fuzz entry)",
    "technique": "exhaustive small-scope enumeration + rapid generation against a reference parser/matcher written from docs, plus print/re-parse round-trip (metamorphic) oracle",
    "design_ref": "DESIGN.md §4 C17",
    "level_text": "Every string up to length 6 (quick) / 8 (thorough) over {a,b,/,:,.} under four current packages is parsed as label and as pattern; strings inside the documented grammar must agree with an independent reference parser and matcher over a 105-label universe, every accepted string must survive print->re-parse with an identical match set. Random longer strings over a wider alphabet extend this by sampling. Exhaustive within the bound, exploration beyond it.",
    "level_note": "Trusted: the reference grammar transcribed from docs/reference/labels.md; the 105-label universe separates all match sets of interest (prefix siblings, nested packages, the name 'all').",
}
